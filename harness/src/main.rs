use cteverif::engine::{self, parse_args};
use cteverif::props;

fn main() {
    let args = parse_args();
    if let Some(sub) = &args.worker {
        let sub = sub.clone();
        engine::worker_main(move |v| props::worker_dispatch(&sub, v));
    }
    if let Some(path) = &args.replay {
        let doc = match engine::load_replay(path) {
            Ok(d) => d,
            Err(e) => {
                eprintln!("INFRA: cannot read replay file {}: {}", path.display(), e);
                std::process::exit(2);
            }
        };
        let mut a = args.clone();
        a.property = doc.property.clone();
        a.strict = true;
        props::replay(&a, &doc);
    }
    props::run(&args);
}
