pub mod bdl;
pub mod building;
pub mod geom;
pub mod model;
