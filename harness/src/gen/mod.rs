pub mod geom;
pub mod model;
