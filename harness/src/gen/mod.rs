pub mod geom;
