//! Geometry generators: numbers, simple polygons, poses, rays, boxes (DESIGN 2.3)

use proptest::prelude::*;
use serde::{Deserialize, Serialize};

/// f32 with two decimals in [lo, hi]
pub fn dec2(lo: f32, hi: f32) -> BoxedStrategy<f32> {
    let a = (lo * 100.0).round() as i64;
    let b = (hi * 100.0).round() as i64;
    (a..=b).prop_map(|i| i as f32 / 100.0).boxed()
}

/// f32 with three decimals in [lo, hi]
pub fn dec3(lo: f32, hi: f32) -> BoxedStrategy<f32> {
    let a = (lo * 1000.0).round() as i64;
    let b = (hi * 1000.0).round() as i64;
    (a..=b).prop_map(|i| i as f32 / 1000.0).boxed()
}

/// 80 % engineering decimals, 20 % raw f32 in range
pub fn num(lo: f32, hi: f32) -> BoxedStrategy<f32> {
    prop_oneof![
        4 => dec3(lo, hi),
        1 => (lo..=hi).boxed(),
    ]
    .boxed()
}

#[derive(Clone, Debug, Serialize, Deserialize, PartialEq)]
pub struct P2 {
    pub x: f32,
    pub y: f32,
}

#[derive(Clone, Debug, Serialize, Deserialize, PartialEq)]
pub struct P3 {
    pub x: f32,
    pub y: f32,
    pub z: f32,
}

/// Planar polygon with a pose (the data of a `WallGeom`)
#[derive(Clone, Debug, Serialize, Deserialize)]
pub struct PosedPoly {
    pub tilt: f32,
    pub azimuth: f32,
    pub position: P3,
    pub polygon: Vec<P2>,
}

impl PosedPoly {
    pub fn to_wallgeom(&self) -> bemodel::WallGeom {
        bemodel::WallGeom {
            tilt: self.tilt,
            azimuth: self.azimuth,
            position: Some(nalgebra::point![self.position.x, self.position.y, self.position.z]),
            polygon: self
                .polygon
                .iter()
                .map(|p| nalgebra::point![p.x, p.y])
                .collect(),
        }
    }
}

/// Star-shaped (hence simple) polygon with n corners around (cx, cy); optional orientation flip
pub fn star_polygon(min_n: usize, max_n: usize) -> BoxedStrategy<Vec<P2>> {
    (min_n..=max_n)
        .prop_flat_map(|n| {
            (
                proptest::collection::vec((0u32..900, 30u32..800), n),
                -2000i32..2000,
                -2000i32..2000,
                any::<bool>(),
            )
        })
        .prop_map(|(jr, cx, cy, flip)| {
            let n = jr.len();
            let cx = cx as f64 / 100.0;
            let cy = cy as f64 / 100.0;
            let mut pts: Vec<P2> = jr
                .iter()
                .enumerate()
                .map(|(i, (j, r))| {
                    let ang = std::f64::consts::TAU * (i as f64 + *j as f64 / 1000.0) / n as f64;
                    let r = *r as f64 / 100.0;
                    P2 {
                        x: ((cx + r * ang.cos()) * 1000.0).round() as f32 / 1000.0,
                        y: ((cy + r * ang.sin()) * 1000.0).round() as f32 / 1000.0,
                    }
                })
                .collect();
            if flip {
                pts.reverse();
            }
            pts
        })
        .boxed()
}

/// Rectangle starting at the origin with its first edge along +x
pub fn rect_polygon() -> BoxedStrategy<Vec<P2>> {
    (dec2(0.5, 20.0), dec2(0.5, 12.0))
        .prop_map(|(w, h)| {
            vec![
                P2 { x: 0.0, y: 0.0 },
                P2 { x: w, y: 0.0 },
                P2 { x: w, y: h },
                P2 { x: 0.0, y: h },
            ]
        })
        .boxed()
}

/// L-shaped orthogonal outline (non-convex), counter-clockwise
pub fn l_polygon() -> BoxedStrategy<Vec<P2>> {
    (dec2(2.0, 20.0), dec2(2.0, 15.0), 20u32..80, 20u32..80, dec2(-20.0, 20.0), dec2(-20.0, 20.0))
        .prop_map(|(w, h, fx, fy, ox, oy)| {
            let ix = (w * fx as f32 / 100.0 * 100.0).round() / 100.0;
            let iy = (h * fy as f32 / 100.0 * 100.0).round() / 100.0;
            vec![
                P2 { x: ox, y: oy },
                P2 { x: ox + w, y: oy },
                P2 { x: ox + w, y: oy + iy },
                P2 { x: ox + ix, y: oy + iy },
                P2 { x: ox + ix, y: oy + h },
                P2 { x: ox, y: oy + h },
            ]
        })
        .boxed()
}

pub fn any_polygon() -> BoxedStrategy<Vec<P2>> {
    prop_oneof![
        3 => rect_polygon(),
        4 => star_polygon(3, 12),
        1 => l_polygon(),
    ]
    .boxed()
}

pub fn tilt_any() -> BoxedStrategy<f32> {
    prop_oneof![
        3 => prop_oneof![Just(0.0f32), Just(90.0f32), Just(180.0f32)],
        2 => dec2(0.0, 359.99),
        1 => dec2(-360.0, 720.0),
    ]
    .boxed()
}

pub fn azimuth_any() -> BoxedStrategy<f32> {
    prop_oneof![
        2 => prop_oneof![Just(0.0f32), Just(90.0f32), Just(-90.0f32), Just(180.0f32)],
        3 => dec2(-360.0, 360.0),
    ]
    .boxed()
}

pub fn position_box(half: f32) -> BoxedStrategy<P3> {
    (dec2(-half, half), dec2(-half, half), dec2(-half / 2.0, half / 2.0))
        .prop_map(|(x, y, z)| P3 { x, y, z })
        .boxed()
}

pub fn posed_poly() -> BoxedStrategy<PosedPoly> {
    (tilt_any(), azimuth_any(), position_box(50.0), any_polygon())
        .prop_map(|(tilt, azimuth, position, polygon)| PosedPoly {
            tilt,
            azimuth,
            position,
            polygon,
        })
        .boxed()
}

#[derive(Clone, Debug, Serialize, Deserialize)]
pub struct RayD {
    pub o: P3,
    pub d: P3,
}

/// unit-ish direction: uniform-ish on the sphere or axis aligned
pub fn direction() -> BoxedStrategy<P3> {
    prop_oneof![
        4 => (-1000i32..=1000, 0u32..3600).prop_map(|(z, a)| {
            let z = z as f64 / 1000.0;
            let a = (a as f64 / 10.0).to_radians();
            let r = (1.0 - z * z).max(0.0).sqrt();
            P3 { x: (r * a.cos()) as f32, y: (r * a.sin()) as f32, z: z as f32 }
        }),
        1 => prop_oneof![
            Just(P3 { x: 1.0, y: 0.0, z: 0.0 }),
            Just(P3 { x: -1.0, y: 0.0, z: 0.0 }),
            Just(P3 { x: 0.0, y: 1.0, z: 0.0 }),
            Just(P3 { x: 0.0, y: -1.0, z: 0.0 }),
            Just(P3 { x: 0.0, y: 0.0, z: 1.0 }),
            Just(P3 { x: 0.0, y: 0.0, z: -1.0 }),
        ],
    ]
    .boxed()
}

#[derive(Clone, Debug, Serialize, Deserialize)]
pub struct BoxD {
    pub min: P3,
    pub max: P3,
}

impl BoxD {
    pub fn to_aabb(&self) -> bemodel::energy::AABB {
        bemodel::energy::AABB::new(
            nalgebra::point![self.min.x, self.min.y, self.min.z],
            nalgebra::point![self.max.x, self.max.y, self.max.z],
        )
    }
    pub fn center(&self) -> (f64, f64, f64) {
        (
            (self.min.x as f64 + self.max.x as f64) / 2.0,
            (self.min.y as f64 + self.max.y as f64) / 2.0,
            (self.min.z as f64 + self.max.z as f64) / 2.0,
        )
    }
}

/// Random box; `flat` collapses one axis (as real walls do)
pub fn box_any() -> BoxedStrategy<BoxD> {
    (position_box(40.0), dec2(0.05, 10.0), dec2(0.05, 10.0), dec2(0.05, 6.0), 0u8..8)
        .prop_map(|(c, sx, sy, sz, flat)| {
            let (sx, sy, sz) = match flat {
                0 => (0.0, sy, sz),
                1 => (sx, 0.0, sz),
                2 => (sx, sy, 0.0),
                _ => (sx, sy, sz),
            };
            BoxD {
                min: P3 { x: c.x, y: c.y, z: c.z },
                max: P3 { x: c.x + sx, y: c.y + sy, z: c.z + sz },
            }
        })
        .boxed()
}
