//! Typed HULC building generator and its BDL / .ctehexml printer (DESIGN 2.2, second level).
//! The abstract building is kept by the checks: it is the oracle's input.

use proptest::prelude::*;
use serde::{Deserialize, Serialize};

use super::geom::{dec2, dec3};
use super::model::{pick, ZONES};

#[derive(Clone, Debug, Serialize, Deserialize)]
pub struct MatB {
    pub name: String,
    pub detailed: bool,
    pub conductivity: f32,
    pub density: f32,
    pub specific_heat: Option<f32>,
    pub thickness: Option<f32>,
    pub vapour: Option<f32>,
    pub resistance: f32,
}

#[derive(Clone, Debug, Serialize, Deserialize)]
pub struct LayersB {
    pub name: String,
    pub mats: Vec<(u16, f32)>,
}

#[derive(Clone, Debug, Serialize, Deserialize)]
pub struct GlassB {
    pub name: String,
    pub conductance: f32,
    pub shading_coef: f32,
    pub group: bool,
}

#[derive(Clone, Debug, Serialize, Deserialize)]
pub struct FrameB {
    pub name: String,
    pub conduct: f32,
    pub abs: f32,
    pub width: f32,
}

#[derive(Clone, Debug, Serialize, Deserialize)]
pub struct GapB {
    pub name: String,
    pub glass: u16,
    pub frame: u16,
    pub percentage: f32,
    pub inf_coef: f32,
    pub delta_u: Option<f32>,
    pub trans_july: Option<f32>,
}

#[derive(Clone, Debug, Serialize, Deserialize)]
pub struct DayB {
    pub name: String,
    /// 24 values or 1
    pub values: Vec<f32>,
}

#[derive(Clone, Debug, Serialize, Deserialize)]
pub struct WeekB {
    pub name: String,
    /// 7 day picks or 1
    pub days: Vec<u16>,
}

#[derive(Clone, Debug, Serialize, Deserialize)]
pub struct YearB {
    pub name: String,
    /// increasing end dates (month, day), last = (12, 31), with the week pick of each period
    pub periods: Vec<(u32, u32, u16)>,
}

#[derive(Clone, Debug, Serialize, Deserialize)]
pub struct SpaceCondB {
    pub name: String,
    pub area_per_person: f32,
    pub sens: f32,
    pub lat: f32,
    pub equip: f32,
    pub light: f32,
    pub people_sch: u16,
    pub equip_sch: u16,
    pub light_sch: u16,
}

#[derive(Clone, Debug, Serialize, Deserialize)]
pub struct SysCondB {
    pub name: String,
    pub conditioned: bool,
    pub cool_sch: u16,
    pub heat_sch: u16,
}

#[derive(Clone, Debug, Serialize, Deserialize)]
pub struct WinB {
    pub name: String,
    pub gap: u16,
    pub fx: f32,
    pub fy: f32,
    pub fw: f32,
    pub fh: f32,
    pub setback: f32,
    pub overhang: Option<(f32, f32, f32, f32, f32)>,
    pub left_fin: Option<(f32, f32, f32, f32)>,
    pub right_fin: Option<(f32, f32, f32, f32)>,
    pub coeff: bool,
}

#[derive(Clone, Debug, Serialize, Deserialize)]
pub enum LocB {
    /// wall on the outline edge starting at vertex n (0-based)
    Edge(usize),
    Top,
    Bottom,
    /// own polygon with X, Y, Z, AZIMUTH, TILT in space coordinates
    Poly { poly: Vec<(f32, f32)>, x: f32, y: f32, z: f32, azimuth: f32, tilt: f32 },
}

#[derive(Clone, Debug, Serialize, Deserialize)]
pub enum WallKind {
    Exterior,
    Roof,
    Underground,
    Interior { next: Option<u16> },
    Adiabatic,
}

#[derive(Clone, Debug, Serialize, Deserialize)]
pub struct WallB {
    pub name: String,
    pub kind: WallKind,
    pub loc: LocB,
    pub layers: u16,
    /// Some(abs): referenced through an own CONSTRUCTION block with that absorptance; None: LAYERS name directly
    pub construction_abs: Option<f32>,
    pub windows: Vec<WinB>,
}

#[derive(Clone, Debug, Serialize, Deserialize)]
pub struct SpaceB {
    pub name: String,
    /// counter-clockwise outline in space coordinates
    pub outline: Vec<(f32, f32)>,
    pub x: f32,
    pub y: f32,
    /// the SPACE's own Z (relative to its storey; HULC writes 0)
    #[serde(default)]
    pub z: f32,
    pub azimuth: f32,
    /// CONDITIONED / UNHABITED / UNCONDITIONED ...
    pub stype: String,
    pub insidete: Option<bool>,
    pub multiplier: f32,
    /// HEIGHT attribute written in the SPACE block (HULC: equals the storey height; may differ in hand-made files)
    pub height_attr: Option<f32>,
    pub space_conds: Option<u16>,
    pub system_conds: Option<u16>,
    pub air_changes: Option<f32>,
    pub power: f32,
    pub veei_obj: f32,
    pub walls: Vec<WallB>,
}

#[derive(Clone, Debug, Serialize, Deserialize)]
pub struct FloorB {
    pub name: String,
    pub z: f32,
    pub height: f32,
    pub multiplier: Option<f32>,
    pub spaces: Vec<SpaceB>,
}

#[derive(Clone, Debug, Serialize, Deserialize)]
pub enum ShadeB {
    Rect { name: String, x: f32, y: f32, z: f32, width: f32, height: f32, azimuth: f32, tilt: f32 },
    Verts { name: String, v: Vec<(f32, f32, f32)> },
}

#[derive(Clone, Debug, Serialize, Deserialize)]
pub struct TbB {
    pub name: String,
    pub length: Option<f32>,
    pub psi: f32,
    pub frsi: f32,
    /// 1 default, 2 user, 3 catalogue
    pub definition: Option<u8>,
    pub tbtype: String,
}

#[derive(Clone, Debug, Serialize, Deserialize)]
pub struct GeneralB {
    pub name: String,
    pub zone: u8,
    /// Unifamiliar, Bloque, UnaBloque, Terciario, Gran
    pub tipo: String,
    pub nuevo: bool,
    pub num_viviendas: i32,
    pub impulsion: f32,
    pub n50: Option<f32>,
    /// on-site production declared in the general data: kinds of the electricity rows
    /// (0 Ninguno, 1 Fotovoltaica insitu, 2 Eólica insitu, 3 Cogeneración) and of the thermal rows (0 Ninguno, 1 Solar Térmica ACS)
    #[serde(default)]
    pub onsite_ele: Vec<u8>,
    #[serde(default)]
    pub onsite_acs: Vec<u8>,
}

#[derive(Clone, Debug, Serialize, Deserialize)]
pub struct Bld {
    pub salt: u32,
    pub deviation: f32,
    pub d_ins: f32,
    pub rn_ins: f32,
    pub general: GeneralB,
    pub materials: Vec<MatB>,
    pub layers: Vec<LayersB>,
    pub glasses: Vec<GlassB>,
    pub frames: Vec<FrameB>,
    pub gaps: Vec<GapB>,
    pub days: Vec<DayB>,
    pub weeks: Vec<WeekB>,
    pub years: Vec<YearB>,
    pub space_conds: Vec<SpaceCondB>,
    pub system_conds: Vec<SysCondB>,
    pub floors: Vec<FloorB>,
    pub shades: Vec<ShadeB>,
    pub bridges: Vec<TbB>,
    pub crlf: bool,
    pub indent: u8,
    pub comments: bool,
    /// systems section copied from a shipped project (index into the corpus), None = no systems
    pub systems_from: Option<u8>,
}

// ------------------------------------------------------------------ strategies

fn opt<T: std::fmt::Debug + Clone + 'static>(w_none: u32, s: BoxedStrategy<T>) -> BoxedStrategy<Option<T>> {
    prop_oneof![w_none => Just(None), 3 => s.prop_map(Some)].boxed()
}

fn suffix() -> BoxedStrategy<&'static str> {
    prop_oneof![6 => Just(""), 1 => Just(" (1)"), 1 => Just(" ñ"), 1 => Just("_x"), 1 => Just(" [a]"), 1 => Just(" 50 < d < 100")].boxed()
}

fn outline() -> BoxedStrategy<Vec<(f32, f32)>> {
    prop_oneof![
        4 => (dec2(2.0, 15.0), dec2(2.0, 12.0)).prop_map(|(w, d)| vec![(0.0, 0.0), (w, 0.0), (w, d), (0.0, d)]),
        2 => (dec2(3.0, 15.0), dec2(3.0, 12.0), 25u32..75, 25u32..75).prop_map(|(w, d, fx, fy)| {
            let ix = (w * fx as f32).round() / 100.0;
            let iy = (d * fy as f32).round() / 100.0;
            vec![(0.0, 0.0), (w, 0.0), (w, iy), (ix, iy), (ix, d), (0.0, d)]
        }),
        2 => super::geom::star_polygon(3, 9).prop_map(|p| {
            // counter-clockwise by construction unless flipped: normalise to CCW
            let mut v: Vec<(f32, f32)> = p.iter().map(|q| (q.x, q.y)).collect();
            let a: f32 = (0..v.len()).map(|i| v[i].0 * v[(i + 1) % v.len()].1 - v[i].1 * v[(i + 1) % v.len()].0).sum();
            if a < 0.0 {
                v.reverse();
            }
            v
        }),
    ]
    .boxed()
}

fn win_b(i: usize) -> BoxedStrategy<WinB> {
    (
        any::<u16>(),
        // one window in ten sits in the lower-left corner of its wall (offset 0, 0: a glazed door)
        prop_oneof![9 => (dec2(0.0, 1.0), dec2(0.0, 1.0), dec2(0.2, 0.9), dec2(0.2, 0.9)), 1 => (Just(0.0f32), Just(0.0f32), dec2(0.2, 0.9), dec2(0.2, 0.9))],
        prop_oneof![2 => Just(0.0f32), 1 => dec2(0.05, 0.6)],
        opt(4, (dec2(0.0, 0.5), dec2(0.0, 0.5), dec2(0.3, 2.0), dec2(0.2, 1.5), prop_oneof![Just(90.0f32), dec2(30.0, 120.0)]).boxed()),
        opt(6, (dec2(0.0, 0.5), dec2(0.0, 0.5), dec2(0.2, 1.0), dec2(0.5, 2.0)).boxed()),
        opt(6, (dec2(0.0, 0.5), dec2(0.0, 0.5), dec2(0.2, 1.0), dec2(0.5, 2.0)).boxed()),
        // one window in twelve has a pair of equal fins (the usual symmetric design)
        (any::<bool>(), 0u8..12),
    )
        .prop_map(move |(gap, (fx, fy, fw, fh), setback, overhang, left_fin, right_fin, (coeff, sym))| (gap, (fx, fy, fw, fh), setback, overhang, if sym == 0 { left_fin.or(Some((0.1, 0.0, 0.5, 1.0))) } else { left_fin }, if sym == 0 { left_fin.or(Some((0.1, 0.0, 0.5, 1.0))) } else { right_fin }, coeff))
        .prop_map(move |(gap, (fx, fy, fw, fh), setback, overhang, left_fin, right_fin, coeff)| WinB {
            name: format!("V{}", i),
            gap,
            fx,
            fy,
            fw,
            fh,
            setback,
            overhang,
            left_fin,
            right_fin,
            coeff,
        })
        .boxed()
}

fn wall_kind(allow_under: bool) -> BoxedStrategy<WallKind> {
    prop_oneof![
        5 => Just(WallKind::Exterior),
        if allow_under { 1 } else { 0 } => Just(WallKind::Underground),
        2 => opt(1, any::<u16>().boxed()).prop_map(|next| WallKind::Interior { next }),
        1 => Just(WallKind::Adiabatic),
    ]
    .boxed()
}

fn space_b(fi: usize, si: usize) -> BoxedStrategy<SpaceB> {
    outline()
        .prop_flat_map(move |out| {
            let n = out.len();
            let edge_walls = proptest::collection::vec((wall_kind(true), any::<u16>(), opt(2, prop_oneof![8 => dec2(0.1, 0.9), 1 => Just(0.0f32)].boxed()), proptest::collection::vec(win_b(0), 0..=2), prop_oneof![6 => Just(true), 1 => Just(false)]), n);
            (
                Just(out),
                edge_walls,
                // floor: none / underground / exterior / interior
                opt(1, (prop_oneof![3 => Just(WallKind::Underground), 1 => Just(WallKind::Exterior), 2 => opt(1, any::<u16>().boxed()).prop_map(|next| WallKind::Interior { next })], any::<u16>()).boxed()),
                // ceiling by location TOP: exterior wall, roof or interior
                opt(1, (prop_oneof![2 => Just(WallKind::Exterior), 2 => Just(WallKind::Roof), 1 => opt(1, any::<u16>().boxed()).prop_map(|next| WallKind::Interior { next })], any::<u16>(), proptest::collection::vec(win_b(0), 0..=1)).boxed()),
                // one wall with its own polygon
                opt(3, (dec2(1.0, 6.0), dec2(1.0, 3.0), dec2(-5.0, 5.0), dec2(-5.0, 5.0), dec2(0.0, 3.0), prop_oneof![Just(0.0f32), Just(90.0f32), Just(180.0f32), Just(270.0f32), dec2(0.0, 359.0)], prop_oneof![3 => Just(90.0f32), 1 => Just(0.0f32), 1 => Just(180.0f32), 1 => dec2(0.0, 180.0)], any::<u16>()).boxed()),
                (
                    (prop_oneof![3 => Just(0.0f32), 2 => dec2(-40.0, 40.0)], prop_oneof![3 => Just(0.0f32), 2 => dec2(-40.0, 40.0)], prop_oneof![3 => Just(0.0f32), 1 => Just(180.0f32), 1 => Just(90.0f32), 2 => dec2(0.0, 359.0)], prop_oneof![5 => Just(0.0f32), 1 => dec2(-1.5, 1.5)]),
                    prop_oneof![4 => Just("CONDITIONED".to_string()), 2 => Just("UNHABITED".to_string()), 1 => Just("UNCONDITIONED".to_string())],
                    opt(1, any::<bool>().boxed()),
                    prop_oneof![4 => Just(1.0f32), 1 => (2u32..6).prop_map(|m| m as f32)],
                    prop_oneof![3 => Just(None), 2 => Just(Some(0.0f32)), 1 => dec2(2.0, 4.0).prop_map(Some)],
                    (opt(1, any::<u16>().boxed()), opt(1, any::<u16>().boxed()), opt(3, dec2(0.1, 5.0))),
                    (dec2(0.0, 20.0), prop_oneof![1 => Just(0.0f32), 3 => dec2(1.0, 12.0)]),
                ),
            )
        })
        .prop_map(move |(out, edge_walls, floor, ceiling, own_poly, ((x, y, azimuth, z), stype, insidete, multiplier, height_attr, (space_conds, system_conds, air_changes), (power, veei_obj)))| {
            let sname = format!("P{:02}_E{:02}", fi + 1, si + 1);
            let mut walls = vec![];
            let mut wn = 0;
            let mut wname = |k: &str| {
                wn += 1;
                format!("{}_{}{:03}", sname, k, wn)
            };
            for (i, (kind, layers, abs, wins, present)) in edge_walls.into_iter().enumerate() {
                if !present {
                    continue;
                }
                let name = wname(match kind {
                    WallKind::Interior { .. } | WallKind::Adiabatic => "PI",
                    WallKind::Underground => "TER",
                    _ => "PE",
                });
                let windows = if matches!(kind, WallKind::Exterior) {
                    wins.into_iter().enumerate().map(|(k, mut w)| { w.name = format!("{}_V{}", name, k + 1); w }).collect()
                } else {
                    vec![]
                };
                walls.push(WallB { name, kind, loc: LocB::Edge(i), layers, construction_abs: abs, windows });
            }
            if let Some((kind, layers)) = floor {
                let name = wname("FTER");
                walls.push(WallB { name, kind, loc: LocB::Bottom, layers, construction_abs: None, windows: vec![] });
            }
            if let Some((kind, layers, wins)) = ceiling {
                let name = wname("CUB");
                let windows = if matches!(kind, WallKind::Interior { .. }) { vec![] } else { wins.into_iter().enumerate().map(|(k, mut w)| { w.name = format!("{}_L{}", name, k + 1); w }).collect() };
                walls.push(WallB { name, kind, loc: LocB::Top, layers, construction_abs: Some(0.7), windows });
            }
            if let Some((w, h, px, py, pz, az, tilt, layers)) = own_poly {
                let name = wname("POL");
                walls.push(WallB {
                    name,
                    kind: WallKind::Exterior,
                    loc: LocB::Poly { poly: vec![(0.0, 0.0), (w, 0.0), (w, h), (0.0, h)], x: px, y: py, z: pz, azimuth: az, tilt },
                    layers,
                    construction_abs: None,
                    windows: vec![],
                });
            }
            SpaceB {
                name: sname,
                outline: out,
                x,
                y,
                z,
                azimuth,
                stype,
                insidete,
                multiplier,
                height_attr,
                space_conds,
                system_conds,
                air_changes,
                power,
                veei_obj,
                walls,
            }
        })
        .boxed()
}

fn floor_b(fi: usize) -> BoxedStrategy<FloorB> {
    (dec2(2.5, 4.5), opt(3, (2u32..5).prop_map(|m| m as f32).boxed()), (1usize..=3).prop_flat_map(move |n| (0..n).map(|si| space_b(fi, si)).collect::<Vec<_>>()))
        .prop_map(move |(height, multiplier, spaces)| FloorB {
            name: format!("P{:02}", fi + 1),
            z: 0.0,
            height,
            multiplier,
            spaces,
        })
        .boxed()
}

pub fn month_len(m: u32) -> u32 {
    [31, 28, 31, 30, 31, 30, 31, 31, 30, 31, 30, 31][(m - 1) as usize]
}

/// increasing list of 1..=12 end dates finishing on 31 December
fn end_dates() -> BoxedStrategy<Vec<(u32, u32)>> {
    proptest::collection::vec(1u32..365, 0..11)
        .prop_map(|mut v| {
            v.sort_unstable();
            v.dedup();
            let mut out: Vec<(u32, u32)> = v
                .into_iter()
                .map(|n| {
                    let mut m = 1;
                    let mut d = n;
                    while d > month_len(m) {
                        d -= month_len(m);
                        m += 1;
                    }
                    (m, d)
                })
                .collect();
            out.push((12, 31));
            out
        })
        .boxed()
}

pub fn bld() -> BoxedStrategy<Bld> {
    let mats = proptest::collection::vec(
        (suffix(), any::<bool>(), dec3(0.02, 2.5), dec2(20.0, 2500.0), opt(1, dec2(500.0, 2000.0)), opt(1, dec3(0.005, 0.4)), opt(1, dec2(1.0, 100.0)), dec3(0.05, 3.0)),
        1..=5,
    )
    .prop_map(|v| {
        v.into_iter()
            .enumerate()
            .map(|(i, (sfx, detailed, conductivity, density, specific_heat, thickness, vapour, resistance))| MatB {
                name: format!("Material {}{}", i + 1, sfx),
                detailed,
                conductivity,
                density,
                specific_heat,
                thickness,
                vapour,
                resistance,
            })
            .collect::<Vec<_>>()
    });
    let layers = proptest::collection::vec((suffix(), proptest::collection::vec((any::<u16>(), dec3(0.005, 0.4)), 1..=4)), 1..=4)
        .prop_map(|v| v.into_iter().enumerate().map(|(i, (sfx, mats))| LayersB { name: format!("cerramiento_{}{}", i + 1, sfx), mats }).collect::<Vec<_>>());
    let glasses = proptest::collection::vec((dec2(0.5, 6.0), dec3(0.1, 1.0), any::<bool>()), 1..=2)
        .prop_map(|v| v.into_iter().enumerate().map(|(i, (conductance, shading_coef, group))| GlassB { name: format!("Vidrio {}", i + 1), conductance, shading_coef, group }).collect::<Vec<_>>());
    let frames = proptest::collection::vec((dec2(0.8, 7.0), dec2(0.1, 0.95), dec2(0.02, 0.2)), 1..=2)
        .prop_map(|v| v.into_iter().enumerate().map(|(i, (conduct, abs, width))| FrameB { name: format!("Marco {}", i + 1), conduct, abs, width }).collect::<Vec<_>>());
    let gaps = proptest::collection::vec((any::<u16>(), any::<u16>(), prop_oneof![6 => dec2(0.0, 100.0), 1 => Just(0.0f32), 1 => Just(100.0f32)], prop_oneof![Just(3.0f32), Just(9.0), Just(27.0), Just(50.0)], opt(1, dec2(0.0, 50.0)), opt(1, dec2(0.02, 1.0))), 1..=3)
        .prop_map(|v| v.into_iter().enumerate().map(|(i, (glass, frame, percentage, inf_coef, delta_u, trans_july))| GapB { name: format!("Hueco {}", i + 1), glass, frame, percentage, inf_coef, delta_u, trans_july }).collect::<Vec<_>>());
    let days = proptest::collection::vec(prop_oneof![1 => dec2(0.0, 1.0).prop_map(|v| vec![v]), 3 => proptest::collection::vec(prop_oneof![3 => Just(0.0f32), 6 => dec2(0.01, 1.0), 2 => dec3(0.001, 1.0)], 24)], 1..=4)
        .prop_map(|v| v.into_iter().enumerate().map(|(i, values)| DayB { name: format!("HD_{}", i + 1), values }).collect::<Vec<_>>());
    let weeks = proptest::collection::vec(prop_oneof![1 => proptest::collection::vec(any::<u16>(), 1), 3 => proptest::collection::vec(any::<u16>(), 7), 1 => (any::<u16>(), any::<u16>()).prop_map(|(a, b)| vec![a, a, a, a, a, b, b])], 1..=3)
        .prop_map(|v| v.into_iter().enumerate().map(|(i, days)| WeekB { name: format!("HS_{}", i + 1), days }).collect::<Vec<_>>());
    let years = proptest::collection::vec(end_dates().prop_flat_map(|d| {
        let n = d.len();
        (Just(d), proptest::collection::vec(any::<u16>(), n))
    }), 1..=3)
        .prop_map(|v| v.into_iter().enumerate().map(|(i, (d, w))| YearB { name: format!("HA_{}", i + 1), periods: d.into_iter().zip(w).map(|((m, dd), w)| (m, dd, w)).collect() }).collect::<Vec<_>>());
    let sconds = proptest::collection::vec((prop_oneof![1 => Just(0.0f32), 4 => dec2(0.0, 40.0)], dec2(0.0, 200.0), dec2(0.0, 150.0), dec2(0.0, 30.0), dec2(0.0, 30.0), any::<u16>(), any::<u16>(), any::<u16>()), 1..=2)
        .prop_map(|v| v.into_iter().enumerate().map(|(i, (area_per_person, sens, lat, equip, light, people_sch, equip_sch, light_sch))| SpaceCondB { name: format!("Uso {}", i + 1), area_per_person, sens, lat, equip, light, people_sch, equip_sch, light_sch }).collect::<Vec<_>>());
    let syconds = proptest::collection::vec((any::<bool>(), any::<u16>(), any::<u16>()), 1..=2)
        .prop_map(|v| v.into_iter().enumerate().map(|(i, (conditioned, cool_sch, heat_sch))| SysCondB { name: format!("Consignas {}", i + 1), conditioned, cool_sch, heat_sch }).collect::<Vec<_>>());
    let floors = (1usize..=3).prop_flat_map(|n| (0..n).map(floor_b).collect::<Vec<_>>());
    let shades = proptest::collection::vec(
        prop_oneof![
            (dec2(-30.0, 30.0), dec2(-30.0, 30.0), dec2(0.0, 10.0), dec2(0.5, 10.0), dec2(0.5, 10.0), prop_oneof![Just(0.0f32), Just(90.0), Just(180.0), Just(270.0), dec2(0.0, 359.0)], prop_oneof![6 => Just(90.0f32), 3 => dec2(10.0, 170.0), 1 => Just(0.0f32), 1 => Just(180.0f32), 1 => dec2(170.0, 180.0)])
                .prop_map(|(x, y, z, width, height, azimuth, tilt)| ShadeB::Rect { name: String::new(), x, y, z, width, height, azimuth, tilt }),
            (dec2(-30.0, 30.0), dec2(-30.0, 30.0), dec2(0.0, 10.0), dec2(1.0, 15.0), dec2(1.0, 15.0), dec2(0.0, 359.0), prop_oneof![3 => Just(90.0f32), 2 => Just(0.0f32), 4 => dec2(20.0, 160.0), 2 => dec2(0.05, 3.0), 1 => dec2(3.0, 20.0)]).prop_map(|(x, y, z, w, h, az, tilt)| {
                // a planar rectangle in a random pose, given by its four corners
                let (sa, ca) = ((az as f64).to_radians().sin_cos());
                let (st, ct) = ((tilt as f64).to_radians().sin_cos());
                let u = [ca, sa, 0.0];
                let v = [-sa * ct, ca * ct, st];
                let p = |a: f64, b: f64| {
                    let r = |q: f64| ((q * 1000.0).round() / 1000.0) as f32;
                    (r(x as f64 + a * u[0] + b * v[0]), r(y as f64 + a * u[1] + b * v[1]), r(z as f64 + a * u[2] + b * v[2]))
                };
                ShadeB::Verts { name: String::new(), v: vec![p(0.0, 0.0), p(w as f64, 0.0), p(w as f64, h as f64), p(0.0, h as f64)] }
            }),
            // a planar polygon with 5-12 corners (vertex keys V10, V11, V12 ...) in a random pose
            // (corners are written with six decimals, as HULC does: the converter takes the plane from the first three
            // corners, so corners snapped to millimetres would put the far side of a large polygon more than a
            // centimetre off that plane without any fault of the conversion)
            (dec2(-30.0, 30.0), dec2(-30.0, 30.0), dec2(0.0, 10.0), dec2(1.0, 5.0), 5usize..=12, dec2(0.0, 359.0), prop_oneof![Just(90.0f32), Just(0.0f32), dec2(20.0, 160.0)]).prop_map(|(x, y, z, r, n, az, tilt)| {
                let (sa, ca) = ((az as f64).to_radians().sin_cos());
                let (st, ct) = ((tilt as f64).to_radians().sin_cos());
                let u = [ca, sa, 0.0];
                let v = [-sa * ct, ca * ct, st];
                let rr = |q: f64| ((q * 1.0e6).round() / 1.0e6) as f32;
                let verts = (0..n)
                    .map(|k| {
                        // regular outline: no three corners are collinear and the leading three span the plane well
                        let ang = 2.0 * std::f64::consts::PI * k as f64 / n as f64;
                        let rad = r as f64;
                        let (a, b) = (rad * ang.cos(), rad * ang.sin());
                        (rr(x as f64 + a * u[0] + b * v[0]), rr(y as f64 + a * u[1] + b * v[1]), rr(z as f64 + a * u[2] + b * v[2]))
                    })
                    .collect();
                ShadeB::Verts { name: String::new(), v: verts }
            }),
        ],
        0..=3,
    );
    let bridges = proptest::collection::vec((prop_oneof![Just("FRENTE_FORJADO"), Just("UNION_CUBIERTA"), Just("ESQUINA_CONVEXA_FORJADO"), Just("ESQUINA_CONCAVA"), Just("PILAR"), Just("UNION_SOLERA_PAREDEXT"), Just("HUECO_VENTANA"), Just("OTRO_PT")], opt(1, dec3(0.0, 300.0)), dec2(-0.1, 1.5), dec2(0.1, 0.9), opt(1, (1u8..=3).boxed())), 0..=5)
        .prop_map(|v| {
            let mut seen = std::collections::HashSet::new();
            v.into_iter()
                .filter(|t| seen.insert(t.0))
                .map(|(name, length, psi, frsi, definition)| TbB {
                    name: name.to_string(),
                    length,
                    psi,
                    frsi,
                    definition,
                    tbtype: match name {
                        "PILAR" => "PILLAR".into(),
                        "HUECO_VENTANA" => "WINDOW-FRAME".into(),
                        "UNION_SOLERA_PAREDEXT" => "UNDER-EXT".into(),
                        "OTRO_PT" => "".into(),
                        _ => "SLAB".into(),
                    },
                })
                .collect::<Vec<_>>()
        });
    // project names: usual, empty (an unnamed project) and the text the model uses as its own default
    let pname = prop_oneof![4 => Just("Proyecto generado"), 2 => Just(""), 1 => Just("Nombre del proyecto"), 1 => Just("Reforma 2ª fase & <anexo>"),
        // long names with accented letters at every offset modulo 3 bytes (tools that shorten names cut by position)
        1 => Just("añañañañañañañañañañañañañañañañañañañañañañañañañañañañañañañañañañ"), 1 => Just("Bañañañañañañañañañañañañañañañañañañañañañañañañañañañañañañañañañañañ"), 1 => Just("Edañañañañañañañañañañañañañañañañañañañañañañañañañañañañañañañañañañañ")];
    let general = (0u8..32, prop_oneof![Just("Unifamiliar"), Just("Bloque"), Just("UnaBloque"), Just("Terciario"), Just("Gran")], any::<bool>(), 1i32..20, dec2(0.0, 500.0), opt(2, dec2(0.5, 10.0)), pname, prop_oneof![3 => Just(vec![]), 2 => proptest::collection::vec(0u8..4, 1..=10)], prop_oneof![3 => Just(vec![]), 1 => proptest::collection::vec(0u8..2, 1..=10)])
        .prop_map(|(zone, tipo, nuevo, num_viviendas, impulsion, n50, pname, onsite_ele, onsite_acs)| GeneralB { name: pname.to_string(), zone, tipo: tipo.to_string(), nuevo, num_viviendas, impulsion, n50, onsite_ele, onsite_acs });
    (
        (any::<u32>(), prop_oneof![2 => Just(0.0f32), 1 => Just(180.0f32), 3 => dec2(0.0, 359.99)], prop_oneof![2 => Just(0.0f32), 1 => dec2(0.1, 3.0)], prop_oneof![2 => Just(0.0f32), 1 => dec2(0.1, 5.0)], general),
        (mats, layers, glasses, frames, gaps),
        (days, weeks, years, sconds, syconds),
        floors,
        shades,
        bridges,
        (any::<bool>(), 0u8..12, any::<bool>(), opt(2, (0u8..12).boxed())),
    )
        .prop_map(|((salt, deviation, d_ins, rn_ins, general), (materials, layers, glasses, frames, gaps), (days, weeks, years, space_conds, system_conds), mut floors, mut shades, bridges, (crlf, indent, comments, systems_from))| {
            // storey levels stack up
            let mut z = 0.0f32;
            for f in &mut floors {
                f.z = z;
                z += f.height;
            }
            // one building in seven has a space without elements of its own (a shaft or patio enclosed by its
            // neighbours' partitions): it is referred to only as the adjacent space of other spaces' walls
            let nspaces: usize = floors.iter().map(|f| f.spaces.len()).sum();
            if salt % 7 == 3 && nspaces >= 2 {
                if let Some(s) = floors.last_mut().and_then(|f| f.spaces.last_mut()) {
                    s.walls.clear();
                }
            }
            // separate namespaces per kind: HULC itself writes a GLASS-TYPE and a NAME-FRAME both called "Ninguno"
            let (mut glasses, mut frames) = (glasses, frames);
            if salt % 4 == 0 {
                glasses[0].name = "Ninguno".into();
                frames[0].name = "Ninguno".into();
            }
            for (i, s) in shades.iter_mut().enumerate() {
                match s {
                    ShadeB::Rect { name, .. } | ShadeB::Verts { name, .. } => *name = format!("Sombra{:03}", i + 1),
                }
            }
            Bld {
                salt,
                deviation,
                d_ins,
                rn_ins,
                general,
                materials,
                layers,
                glasses,
                frames,
                gaps,
                days,
                weeks,
                years,
                space_conds,
                system_conds,
                floors,
                shades,
                bridges,
                crlf,
                indent,
                comments,
                systems_from,
            }
        })
        .boxed()
}

// ------------------------------------------------------------------ derived data

impl Bld {
    pub fn all_spaces(&self) -> Vec<(&FloorB, &SpaceB)> {
        self.floors.iter().flat_map(|f| f.spaces.iter().map(move |s| (f, s))).collect()
    }
    pub fn space_names(&self) -> Vec<String> {
        self.all_spaces().iter().map(|(_, s)| s.name.clone()).collect()
    }
    pub fn layers_name(&self, p: u16) -> &str {
        &self.layers[pick(p, self.layers.len())].name
    }
    pub fn construction_name(&self, w: &WallB) -> String {
        match w.construction_abs {
            Some(a) => format!("{}{:.2}", self.layers_name(w.layers), a),
            None => self.layers_name(w.layers).to_string(),
        }
    }
    /// NEXT-TO target of an interior wall (another space, never the own one), if any
    pub fn next_to(&self, own: &str, p: Option<u16>) -> Option<String> {
        let names = self.space_names();
        let p = p?;
        if names.len() < 2 {
            return None;
        }
        // a space without elements of its own is the usual neighbour of the partitions around it
        if let Some((_, bare)) = self.all_spaces().into_iter().find(|(_, s)| s.walls.is_empty()) {
            if bare.name != own && p % 2 == 0 {
                return Some(bare.name.clone());
            }
        }
        let mut j = pick(p, names.len());
        if names[j] == own {
            j = (j + 1) % names.len();
        }
        Some(names[j].clone())
    }
    /// window rectangle (x, y, w, h) inside a host rectangle of (width, height), slot k of n
    pub fn window_rect(w: &WinB, k: usize, n: usize, width: f32, height: f32) -> (f32, f32, f32, f32) {
        let r2 = |v: f32| (v * 100.0).round() / 100.0;
        let slot = width / n as f32;
        let ww = r2((slot * 0.9 * w.fw).max(0.05));
        let wh = r2((height * 0.9 * w.fh).max(0.05));
        let x = r2(k as f32 * slot + (slot - ww).max(0.0) * w.fx * 0.99);
        let y = r2((height - wh).max(0.0) * w.fy * 0.99);
        (x, y, ww, wh)
    }
    pub fn edge_len(s: &SpaceB, i: usize) -> f32 {
        let a = s.outline[i];
        let b = s.outline[(i + 1) % s.outline.len()];
        ((b.0 - a.0).powi(2) + (b.1 - a.1).powi(2)).sqrt()
    }
    /// bounding size of the outline (host rectangle of TOP windows is not a rectangle in general: windows
    /// on TOP walls are placed in a 1 m box at the first vertex)
    pub fn zone_name(&self) -> &'static str {
        ZONES[self.general.zone as usize % 32]
    }
}

// ------------------------------------------------------------------ printer

pub struct Printer {
    pub lines: Vec<String>,
    ind: String,
    comments: bool,
}

fn f(v: f32) -> String {
    // HULC prints plain decimals; keep enough digits to read back the same f32
    let s = format!("{}", v);
    if s.contains('e') {
        format!("{:.6}", v)
    } else {
        s
    }
}

impl Printer {
    fn block(&mut self, name: &str, btype: &str, attrs: &[(String, String)]) {
        if self.comments {
            self.lines.push(format!("$ {} = {}  ..", btype, name));
        }
        self.lines.push(format!("{}\"{}\" = {}", self.ind, name, btype));
        for (k, v) in attrs {
            self.lines.push(format!("{}    {:<14}= {}", self.ind, k, v));
        }
        self.lines.push(format!("{}    ..", self.ind));
    }
}

fn q(s: &str) -> String {
    format!("\"{}\"", s)
}
fn kv(k: &str, v: String) -> (String, String) {
    (k.to_string(), v)
}

/// BDL text of the building (the content of <EntradaGraficaLIDER>)
pub fn print_bdl_with_preamble(b: &Bld) -> String {
    print_bdl(b)
}

/// BDL text of the building (the content of <EntradaGraficaLIDER>)
pub fn print_bdl(b: &Bld) -> String {
    let mut p = Printer {
        lines: vec![],
        ind: " ".repeat(b.indent as usize),
        comments: b.comments,
    };
    p.lines.push("$ +----------------------------------------------------+".into());
    p.lines.push("$ |  generado por el verificador                        |".into());
    // every HULC file starts with the LIDER part (loose attributes) before the general data block
    p.lines.push("CAMBIO = SI".into());
    p.lines.push("CAMBIO-CALENER = NO".into());
    p.lines.push("           ENERGIAGT  = YES".into());
    p.lines.push(" \"DATOS GENERALES\" = GENERAL-DATA".into());
    p.lines.push("     ENGLISH             = NO".into());
    p.lines.push("     ..".into());
    p.block(
        "Edificio",
        "BUILD-PARAMETERS",
        &[
            kv("LATITUDE", "40.000000".into()),
            kv("AZIMUTH", f(b.deviation)),
            kv("CLASE-HIGROMETRIA", "3".into()),
            kv("D-AISLAMIENTO-PERIMETRAL", f(b.d_ins)),
            kv("RA-AISLAMIENTO-PERIMETRAL", f(b.rn_ins)),
        ],
    );
    for m in &b.materials {
        let mut a = vec![];
        if m.detailed {
            a.push(kv("TYPE", "PROPERTIES".into()));
            if let Some(t) = m.thickness {
                a.push(kv("THICKNESS", f(t)));
            }
            a.push(kv("CONDUCTIVITY", f(m.conductivity)));
            a.push(kv("DENSITY", f(m.density)));
            if let Some(c) = m.specific_heat {
                a.push(kv("SPECIFIC-HEAT", f(c)));
            }
            if let Some(v) = m.vapour {
                a.push(kv("VAPOUR-DIFFUSIVITY-FACTOR", f(v)));
            }
        } else {
            a.push(kv("TYPE", "RESISTANCE".into()));
            a.push(kv("RESISTANCE", f(m.resistance)));
        }
        a.push(kv("NAME", q(&m.name)));
        a.push(kv("GROUP", q("Generados")));
        a.push(kv("LIBRARY", "NO".into()));
        p.block(&m.name, "MATERIAL", &a);
    }
    for l in &b.layers {
        let names: Vec<String> = l.mats.iter().map(|(m, _)| q(&b.materials[pick(*m, b.materials.len())].name)).collect();
        let ths: Vec<String> = l.mats.iter().map(|(_, t)| format!("{:>14}", f(*t))).collect();
        p.block(
            &l.name,
            "LAYERS",
            &[kv("GROUP", q("envolvente")), kv("NAME", q(&l.name)), kv("TYPE-DEFINITION", "1".into()), kv("MATERIAL", format!("({})", names.join(","))), kv("THICKNESS", format!("({})", ths.join(","))), kv("LIBRARY", "NO".into())],
        );
    }
    for g in &b.glasses {
        let mut a = vec![];
        if g.group {
            a.push(kv("GROUP", q("Vidrios generados")));
        }
        a.push(kv("TYPE", "SHADING-COEF".into()));
        a.push(kv("SHADING-COEF", f(g.shading_coef)));
        a.push(kv("GLASS-CONDUCTANCE", f(g.conductance)));
        p.block(&g.name, "GLASS-TYPE", &a);
    }
    for fr in &b.frames {
        p.block(&fr.name, "NAME-FRAME", &[kv("GROUP", q("Marcos generados")), kv("FRAME-WIDTH", f(fr.width)), kv("FRAME-CONDUCT", f(fr.conduct)), kv("FRAME-ABS", f(fr.abs)), kv("LIBRARY", "NO".into())]);
    }
    for g in &b.gaps {
        let mut a = vec![
            kv("NAME", q(&g.name)),
            kv("TYPE", "1".into()),
            kv("GROUP", q("huecos")),
            kv("GROUP-GLASS", q("Vidrios generados")),
            kv("GLASS-TYPE", q(&b.glasses[pick(g.glass, b.glasses.len())].name)),
            kv("GROUP-FRAME", q("Marcos generados")),
            kv("NAME-FRAME", q(&b.frames[pick(g.frame, b.frames.len())].name)),
            kv("PORCENTAGE", f(g.percentage)),
            kv("INF-COEF", f(g.inf_coef)),
        ];
        if let Some(d) = g.delta_u {
            a.push(kv("porcentajeIncrementoU", f(d)));
        }
        if let Some(t) = g.trans_july {
            a.push(kv("TransmisividadJulio", f(t)));
        }
        a.push(kv("VIGENCIA", "( \"A\", \"B\", \"C\", \"D\", \"E\", \"F\")".into()));
        p.block(&g.name, "GAP", &a);
    }
    for d in &b.days {
        let vals: Vec<String> = d.values.iter().map(|v| f(*v)).collect();
        p.block(&d.name, "DAY-SCHEDULE-PD", &[kv("TYPE", q("FRACTION")), kv("GROUP", q("Internas")), kv("VALUES", format!("( {})", vals.join(", ")))]);
    }
    for w in &b.weeks {
        let names: Vec<String> = w.days.iter().map(|d| q(&b.days[pick(*d, b.days.len())].name)).collect();
        p.block(&w.name, "WEEK-SCHEDULE-PD", &[kv("TYPE", q("FRACTION")), kv("GROUP", q("Internas")), kv("DAY-SCHEDULES", format!("( {})", names.join(", ")))]);
    }
    for y in &b.years {
        let months: Vec<String> = y.periods.iter().map(|p| p.0.to_string()).collect();
        let days: Vec<String> = y.periods.iter().map(|p| p.1.to_string()).collect();
        let weeks: Vec<String> = y.periods.iter().map(|p| q(&b.weeks[pick(p.2, b.weeks.len())].name)).collect();
        p.block(
            &y.name,
            "SCHEDULE-PD",
            &[kv("TYPE", q("FRACTION")), kv("GROUP", q("Internas")), kv("MONTH", format!("( {})", months.join(", "))), kv("DAY", format!("( {})", days.join(", "))), kv("WEEK-SCHEDULES", format!("( {})", weeks.join(", ")))],
        );
    }
    let yname = |p: u16| q(&b.years[pick(p, b.years.len())].name);
    for s in &b.space_conds {
        p.block(
            &s.name,
            "SPACE-CONDITIONS",
            &[
                kv("TYPE", "CONDITIONED".into()),
                kv("AREA/PERSON", f(s.area_per_person)),
                kv("PEOPLE-HG-SENS", f(s.sens)),
                kv("PEOPLE-HG-LAT", f(s.lat)),
                kv("PEOPLE-SCHEDULE", yname(s.people_sch)),
                kv("EQUIPMENT-W/AREA", f(s.equip)),
                kv("EQUIP-SCHEDULE", yname(s.equip_sch)),
                kv("LIGHTING-W/AREA", f(s.light)),
                kv("LIGHTING-SCHEDULE", yname(s.light_sch)),
            ],
        );
    }
    for s in &b.system_conds {
        let mut a = vec![kv("TYPE", if s.conditioned { "CONDITIONED".into() } else { "UNCONDITIONED".to_string() })];
        if s.conditioned {
            a.push(kv("COOL-TEMP-SCH", yname(s.cool_sch)));
            a.push(kv("HEAT-TEMP-SCH", yname(s.heat_sch)));
        }
        p.block(&s.name, "SYSTEM-CONDITIONS", &a);
    }
    let mut prev = String::new();
    for fl in &b.floors {
        p.block(&format!("{}_Poligono1", fl.name), "POLYGON", &[kv("V1", "( 0, 0 )".into()), kv("V2", "( 1, 0 )".into()), kv("V3", "( 1, 1 )".into()), kv("V4", "( 0, 1 )".into())]);
        let mut a = vec![];
        if fl.z != 0.0 {
            a.push(kv("Z", f(fl.z)));
        }
        a.push(kv("POLYGON", q(&format!("{}_Poligono1", fl.name))));
        // FLOOR-HEIGHT (floor to floor): usually written equal to SPACE-HEIGHT, 0 in files of old LIDER versions, or
        // larger than it (slab included); the storey height the model uses is the written SPACE-HEIGHT
        let floor_height = match (b.salt as usize + fl.name.len() + fl.spaces.len()) % 5 {
            0 => 0.0,
            1 => fl.height + 0.5,
            _ => fl.height,
        };
        a.push(kv("FLOOR-HEIGHT", f(floor_height)));
        a.push(kv("SPACE-HEIGHT", f(fl.height)));
        if let Some(m) = fl.multiplier {
            a.push(kv("MULTIPLIER", f(m)));
        }
        a.push(kv("SHAPE", "POLYGON".into()));
        a.push(kv("PREVIOUS", q(&prev)));
        p.block(&fl.name, "FLOOR", &a);
        prev = fl.name.clone();
        for s in &fl.spaces {
            let pname = format!("{}_Pol2", s.name);
            let vs: Vec<(String, String)> = s.outline.iter().enumerate().map(|(i, v)| kv(&format!("V{}", i + 1), format!("( {}, {} )", f(v.0), f(v.1)))).collect();
            p.block(&pname, "POLYGON", &vs);
            let mut a = vec![kv("nCompleto", q(&s.name))];
            if let Some(h) = s.height_attr {
                a.push(kv("HEIGHT", f(if h == 0.0 { fl.height } else { h })));
            }
            if s.x != 0.0 {
                a.push(kv("X", f(s.x)));
            }
            if s.y != 0.0 {
                a.push(kv("Y", f(s.y)));
            }
            if s.z != 0.0 {
                a.push(kv("Z", f(s.z)));
            }
            if s.azimuth != 0.0 {
                a.push(kv("AZIMUTH", f(s.azimuth)));
            }
            a.push(kv("SHAPE", "POLYGON".into()));
            a.push(kv("POLYGON", q(&pname)));
            a.push(kv("TYPE", s.stype.clone()));
            a.push(kv("SPACE-TYPE", q("Residencial")));
            if let Some(c) = s.system_conds {
                a.push(kv("SYSTEM-CONDITIONS", q(&b.system_conds[pick(c, b.system_conds.len())].name)));
            }
            if let Some(c) = s.space_conds {
                a.push(kv("SPACE-CONDITIONS", q(&b.space_conds[pick(c, b.space_conds.len())].name)));
            }
            a.push(kv("FLOOR-WEIGHT", "0".into()));
            a.push(kv("MULTIPLIER", f(s.multiplier)));
            a.push(kv("MULTIPLIED", if s.multiplier != 1.0 { "1".into() } else { "0".to_string() }));
            a.push(kv("PILLARS-NUMBERS", "0".into()));
            if let Some(i) = s.insidete {
                a.push(kv("perteneceALaEnvolventeTermica", if i { "SI".into() } else { "NO".to_string() }));
            }
            a.push(kv("INTERIOR-RADIATION", "FIXED".into()));
            a.push(kv("POWER", f(s.power)));
            a.push(kv("VEEI-OBJ", format!("{:.6}", s.veei_obj)));
            a.push(kv("VEEI-REF", "10.000000".into()));
            if let Some(ac) = s.air_changes {
                a.push(kv("AIR-CHANGES/HR", format!("{:.6}", ac)));
            }
            p.block(&s.name, "SPACE", &a);
            for w in &s.walls {
                let (btype, mut a) = match &w.kind {
                    WallKind::Exterior => ("EXTERIOR-WALL", vec![kv("ABSORPTANCE", "0.6".into()), kv("COMPROBAR-REQUISITOS-MINIMOS", "YES".into())]),
                    WallKind::Roof => ("ROOF", vec![kv("ABSORPTANCE", "0.6".into())]),
                    WallKind::Underground => ("UNDERGROUND-WALL", vec![kv("Z-GROUND", "0".into())]),
                    WallKind::Interior { next } => {
                        let mut v = vec![kv("INT-WALL-TYPE", "STANDARD".into())];
                        if let Some(n) = b.next_to(&s.name, *next) {
                            v.push(kv("NEXT-TO", q(&n)));
                        }
                        ("INTERIOR-WALL", v)
                    }
                    WallKind::Adiabatic => ("INTERIOR-WALL", vec![kv("INT-WALL-TYPE", "ADIABATIC".into())]),
                };
                a.push(kv("CONSTRUCTION", q(&b.construction_name(w))));
                match &w.loc {
                    LocB::Edge(i) => a.push(kv("LOCATION", format!("SPACE-V{}", i + 1))),
                    LocB::Top => a.push(kv("LOCATION", "TOP".into())),
                    LocB::Bottom => a.push(kv("LOCATION", "BOTTOM".into())),
                    LocB::Poly { poly, x, y, z, azimuth, tilt } => {
                        let pn = format!("{}_Poligono3", w.name);
                        // the polygon block precedes the wall in real files; order does not matter to the parser
                        let vs: Vec<(String, String)> = poly.iter().enumerate().map(|(i, v)| kv(&format!("V{}", i + 1), format!("( {}, {} )", f(v.0), f(v.1)))).collect();
                        p.block(&pn, "POLYGON", &vs);
                        a.push(kv("X", f(*x)));
                        a.push(kv("Y", f(*y)));
                        a.push(kv("Z", f(*z)));
                        a.push(kv("AZIMUTH", f(*azimuth)));
                        a.push(kv("TILT", f(*tilt)));
                        a.push(kv("POLYGON", q(&pn)));
                    }
                }
                p.block(&w.name, btype, &a);
                if let Some(abs) = w.construction_abs {
                    p.block(&b.construction_name(w), "CONSTRUCTION", &[kv("TYPE", "LAYERS".into()), kv("LAYERS", q(b.layers_name(w.layers))), kv("ABSORPTANCE", format!("{:.6}", abs))]);
                }
                let (hw, hh) = match &w.loc {
                    LocB::Edge(i) => (Bld::edge_len(s, *i), fl.height),
                    _ => (1.0, 1.0),
                };
                let n = w.windows.len();
                for (k, win) in w.windows.iter().enumerate() {
                    let (x, y, ww, wh) = Bld::window_rect(win, k, n, hw, hh);
                    let mut a = vec![kv("X", f(x)), kv("Y", f(y)), kv("SETBACK", f(win.setback)), kv("HEIGHT", f(wh)), kv("WIDTH", f(ww)), kv("GAP", q(&b.gaps[pick(win.gap, b.gaps.len())].name))];
                    if win.coeff {
                        a.push(kv("COEFF", "( 1.000000, 1.000000, 1.000000, 1.000000)".into()));
                    }
                    if let Some((oa, ob, ow, od, ang)) = win.overhang {
                        a.push(kv("OVERHANG-A", f(oa)));
                        a.push(kv("OVERHANG-B", f(ob)));
                        a.push(kv("OVERHANG-W", f(ow)));
                        a.push(kv("OVERHANG-D", f(od)));
                        a.push(kv("OVERHANG-ANGLE", f(ang)));
                    }
                    if let Some((fa, fb, fd, fh)) = win.left_fin {
                        a.push(kv("LEFT-FIN-A", f(fa)));
                        a.push(kv("LEFT-FIN-B", f(fb)));
                        a.push(kv("LEFT-FIN-H", f(fh)));
                        a.push(kv("LEFT-FIN-D", f(fd)));
                    }
                    if let Some((fa, fb, fd, fh)) = win.right_fin {
                        a.push(kv("RIGHT-FIN-A", f(fa)));
                        a.push(kv("RIGHT-FIN-B", f(fb)));
                        a.push(kv("RIGHT-FIN-H", f(fh)));
                        a.push(kv("RIGHT-FIN-D", f(fd)));
                    }
                    p.block(&win.name, "WINDOW", &a);
                }
            }
        }
    }
    for t in &b.bridges {
        let mut a = vec![];
        if let Some(l) = t.length {
            a.push(kv("LONG-TOTAL", format!("{:.6}", l)));
        }
        if let Some(d) = t.definition {
            a.push(kv("DEFINICION", d.to_string()));
        }
        a.push(kv("TTL", format!("{:.6}", t.psi)));
        if t.definition == Some(3) {
            a.push(kv("LISTA-N", "( \"Frente de forjado - aislamiento continuo\")".into()));
            a.push(kv("LISTA-L", "( 100)".into()));
            a.push(kv("LISTA-MURO", "( 0.230000)".into()));
        }
        a.push(kv("FRSI", f(t.frsi)));
        if !["PILLAR", "WINDOW-FRAME", ""].contains(&t.tbtype.as_str()) {
            a.push(kv("ANGLE-MIN", "135".into()));
            a.push(kv("ANGLE-MAX", "225".into()));
        }
        if !t.tbtype.is_empty() {
            a.push(kv("TYPE", t.tbtype.clone()));
        }
        if !["PILLAR", "WINDOW-FRAME", ""].contains(&t.tbtype.as_str()) {
            a.push(kv("PARTITION", "YES".into()));
        }
        p.block(&t.name, "THERMAL-BRIDGE", &a);
    }
    for s in &b.shades {
        match s {
            ShadeB::Rect { name, x, y, z, width, height, azimuth, tilt } => p.block(
                name,
                "BUILDING-SHADE",
                &[kv("BULB-TRA", q("Default.bulb")), kv("TRAN", "0".into()), kv("REFL", "0.7".into()), kv("X", format!("{:.6}", x)), kv("Y", format!("{:.6}", y)), kv("Z", format!("{:.6}", z)), kv("HEIGHT", format!("{:.6}", height)), kv("WIDTH", format!("{:.6}", width)), kv("TILT", format!("{:.6}", tilt)), kv("AZIMUTH", format!("{:.6}", azimuth))],
            ),
            ShadeB::Verts { name, v } => {
                let mut a = vec![kv("TRAN", "0".into()), kv("REFL", "0.7".into())];
                for (i, q3) in v.iter().enumerate() {
                    a.push(kv(&format!("V{}", i + 1), format!("( {}, {}, {} )", f(q3.0), f(q3.1), f(q3.2))));
                }
                p.block(name, "BUILDING-SHADE", &a);
            }
        }
    }
    p.lines.push("END ..".into());
    p.lines.push("COMPUTE ..".into());
    p.lines.push("STOP ..".into());
    let eol = if b.crlf { "\r\n" } else { "\n" };
    let mut s = p.lines.join(eol);
    s.push_str(eol);
    s
}

fn xml_escape(s: &str) -> String {
    s.replace('&', "&amp;").replace('<', "&lt;").replace('>', "&gt;")
}

/// systems sections (<Definicion_Sistema...>) of the shipped projects, to be transplanted
pub fn shipped_systems_sections() -> Vec<String> {
    let mut out = vec![];
    for p in crate::util::files_with_ext(std::path::Path::new("/repo/hulc_tests/tests"), &["ctehexml"]) {
        let t = std::fs::read_to_string(&p).unwrap_or_default();
        let mut sec = String::new();
        for tag in ["Definicion_Sistema", "Definicion_Sistema_CALENER_GT"] {
            let open = format!("<{}>", tag);
            let close = format!("</{}>", tag);
            if let (Some(a), Some(bi)) = (t.find(&open), t.find(&close)) {
                if bi > a {
                    sec.push_str(&t[a..bi + close.len()]);
                    sec.push('\n');
                }
            }
        }
        out.push(sec);
    }
    out
}

/// the .ctehexml document of the building
pub fn print_ctehexml(b: &Bld, systems: &[String]) -> String {
    let g = &b.general;
    let mut s = String::new();
    s.push_str("<?xml version=\"1.0\"?>\n<CTE-HE-XML>\n    <DatosGenerales>\n");
    let mut tag = |k: &str, v: String| s.push_str(&format!("        <{}>{}</{}>\n", k, xml_escape(&v), k));
    tag("tipoVivienda", g.tipo.clone());
    tag("tipoDefinicion", if g.nuevo { "Nuevo".into() } else { "CambioMas25SinSistemas".to_string() });
    tag("zonaClimatica", b.zone_name().trim_end_matches('c').to_string());
    tag("numViviendasBloque", g.num_viviendas.to_string());
    tag("valorImpulsionAire", format!("{:.2}", g.impulsion));
    tag("nomPro", g.name.clone());
    tag("pathArchivoMeteorologicoSeleccionado", format!("C:\\ProgramasCTEyCEE\\DatosClimaticos\\GENERICOS\\zona{}.bin", b.zone_name()));
    match g.n50 {
        Some(v) => {
            tag("ensayoPermeabilidad", "SI".into());
            tag("ValorN50Medido", format!("{:.2}", v));
        }
        None => tag("ensayoPermeabilidad", "NO".into()),
    }
    // on-site production rows: 14 fields each (kind; name; 12 monthly values), as HULC writes them
    let rows = |kinds: &[u8], names: &[&str]| -> String {
        kinds
            .iter()
            .enumerate()
            .map(|(i, k)| {
                let kind = names[(*k as usize) % names.len()];
                let label = if kind == "Ninguno" { "Ninguno".to_string() } else { format!("instalacion {}", i + 1) };
                format!("{};{};{}", kind, label, (0..12).map(|m| format!("{:.1}", if kind == "Ninguno" { 0.0 } else { 100.0 + 10.0 * m as f32 })).collect::<Vec<_>>().join(";"))
            })
            .collect::<Vec<_>>()
            .join(";")
    };
    if !g.onsite_ele.is_empty() {
        tag("valMenELE", "SI".into());
        tag("valoresMensualesELE", rows(&g.onsite_ele, &["Ninguno", "Fotovoltaica insitu", "Eólica insitu", "Cogeneración"]));
    } else {
        tag("valMenELE", "NO".into());
    }
    if !g.onsite_acs.is_empty() {
        tag("valMenACS", "SI".into());
        tag("valoresMensualesACS", rows(&g.onsite_acs, &["Ninguno", "Solar Térmica ACS"]));
    } else {
        tag("valMenACS", "NO".into());
    }
    s.push_str("    </DatosGenerales>\n    <EntradaGraficaLIDER><![CDATA[");
    s.push_str(&print_bdl(b));
    s.push_str("]]>    </EntradaGraficaLIDER>\n");
    if let (Some(i), false) = (b.systems_from, systems.is_empty()) {
        s.push_str("    ");
        s.push_str(&systems[i as usize % systems.len()]);
    }
    s.push_str("</CTE-HE-XML>\n");
    s
}
