//! BDL documents (DESIGN 2.2): abstract block documents with layout knobs, and their printer.

use proptest::prelude::*;
use serde::{Deserialize, Serialize};

pub const BLOCK_TYPES: [&str; 53] = [
    "FLOOR", "ZONE", "SPACE", "UNDERGROUND-WALL", "UNDERGROUND-FLOOR", "INTERIOR-WALL", "EXTERIOR-WALL", "WINDOW", "ROOF", "DOOR",
    "THERMAL-BRIDGE", "CONSTRUCTION", "MATERIAL", "NAME-FRAME", "GLASS-TYPE", "LAYERS", "GAP", "BUILDING-SHADE", "POLYGON",
    "RUN-PERIOD-PD", "BUILD-PARAMETERS", "DAY-SCHEDULE-PD", "WEEK-SCHEDULE-PD", "SCHEDULE-PD", "SCHEDULE-DAY", "SCHEDULE-WEEK",
    "SYSTEM-CONDITIONS", "SPACE-CONDITIONS", "DEFECTOS", "GENERAL-DATA", "WORK-SPACE", "AUX-LINE", "PARTELIDER",
    "DESCRIPTION-CONDICTION", "DESCRIPTION", "SYSTEM", "PUMP", "CIRCULATION-LOOP", "CHILLER", "BOILER", "DW-HEATER",
    "HEAT-REJECTION", "ELEC-GENERATOR", "GROUND-LOOP-HX", "ELEC-METER", "FUEL-METER", "MASTER-METERS", "PLANE", "LOADS-REPORT",
    "SYSTEMS-REPORT", "PLANT-REPORT", "REPORT-BLOCK", "HOURLY-REPORT",
];

#[derive(Clone, Debug, Serialize, Deserialize, PartialEq)]
pub enum Val {
    /// a numeric token exactly as printed
    Num(String),
    /// bare word (YES, POLYGON, SPACE-V3)
    Word(String),
    /// quoted string; `pad` blanks are printed inside the quotes on each side
    Quoted { text: String, pad: u8 },
    /// parenthesised list of numeric tokens
    NumList(Vec<String>),
    /// parenthesised list of quoted names
    NameList(Vec<String>),
}

#[derive(Clone, Debug, Serialize, Deserialize)]
pub struct Attr {
    pub key: String,
    pub val: Val,
    /// for lists: break the list over several lines after every `brk` items (0 = one line)
    pub brk: u8,
    /// closing parenthesis on its own line (only with brk > 0)
    pub close_own_line: bool,
    /// blanks before and after '='
    pub sp: (u8, u8),
    /// right-align numbers to this width (0 = no padding)
    pub width: u8,
    /// comment line before this attribute
    pub comment_before: bool,
    pub tab: bool,
}

#[derive(Clone, Debug, Serialize, Deserialize)]
pub struct Blk {
    pub name: String,
    pub btype: String,
    pub attrs: Vec<Attr>,
    pub indent: u8,
    pub blank_before: u8,
    pub comment_before: bool,
    /// terminator indentation
    pub term_indent: u8,
    pub name_pad: u8,
}

#[derive(Clone, Debug, Serialize, Deserialize)]
pub struct Doc {
    pub blocks: Vec<Blk>,
    pub crlf: bool,
    /// LIDER preamble: loose `KEY = value` lines before "DATOS GENERALES" = GENERAL-DATA
    pub preamble: Vec<Attr>,
    pub legacy_header: bool,
    pub separators: bool,
    pub trailing_keywords: bool,
}

// ------------------------------------------------------------------ strategies

/// characters that occur in names of the shipped files (Latin-1 letters, digits, blanks and punctuation)
const NAME_CHARS: &str = "ABCDEFGHIJKLMNOPQRSTUVWXYZabcdefghijklmnopqrstuvwxyz0123456789_-./()[]><'%º,:+áéíóúñÁÉÍÓÚÑüç";

pub fn is_numeric_token(s: &str) -> bool {
    s.trim().parse::<f32>().is_ok()
}

/// Names as HULC emits them: 1-32 chars, not a numeric literal, no quote, no '=', no "..", no leading,
/// trailing or doubled blanks, not starting with '$' or '+'
pub fn name() -> BoxedStrategy<String> {
    let chars: Vec<char> = NAME_CHARS.chars().collect();
    proptest::collection::vec((0..chars.len(), 0u8..10), 1..=32)
        .prop_map(move |v| {
            let mut s = String::new();
            for (i, (c, sp)) in v.iter().enumerate() {
                let ch = chars[*c];
                if i > 0 && *sp == 0 && !s.ends_with(' ') {
                    s.push(' ');
                }
                s.push(ch);
            }
            let mut s = s.replace("..", ".").trim().to_string();
            while s.contains("..") {
                s = s.replace("..", ".");
            }
            if s.starts_with('+') || s.starts_with('$') {
                s.insert(0, 'N');
            }
            // names are identifiers: they contain at least one letter or digit
            if is_numeric_token(&s) || s.is_empty() || !s.chars().any(|c| c.is_alphanumeric()) {
                s.insert(0, 'n');
            }
            // the parser also drops whole lines equal to these words and lines starting with TEMPLARY
            if ["MARCOS", "HUECOS", "PUENTES TERMICOS"].contains(&s.as_str()) || s.starts_with("TEMPLARY") {
                s.insert(0, 'x');
            }
            s
        })
        .boxed()
}

pub fn key() -> BoxedStrategy<String> {
    prop_oneof![
        4 => "[A-Z][A-Z0-9]{0,6}(-[A-Z0-9]{1,6}){0,3}",
        1 => "[A-Z][A-Z]{1,8}_[A-Z]{1,6}",
        1 => "[A-Z]{2,6}/[A-Z]{2,4}",
        1 => "[a-z]{2,8}[A-Z][a-z]{2,8}[A-Z][a-z]{1,6}",
    ]
    .boxed()
}

pub fn num_token() -> BoxedStrategy<String> {
    prop_oneof![
        3 => (-9999i32..99999).prop_map(|i| format!("{}", i)),
        3 => (-99999i32..999999, 1usize..7).prop_map(|(i, d)| format!("{:.*}", d, i as f64 / 1000.0)),
        1 => (1u32..999, -6i32..6).prop_map(|(m, e)| format!("{}e{}", m, e)),
        1 => (0u32..9999).prop_map(|i| format!("{}.", i)),
        1 => (1u32..9999).prop_map(|i| format!(".{}", i)),
        1 => (0u32..999).prop_map(|i| format!("+{}", i)),
    ]
    .boxed()
}

fn word() -> BoxedStrategy<String> {
    prop_oneof![
        Just("YES".to_string()),
        Just("NO".to_string()),
        Just("POLYGON".to_string()),
        Just("CONDITIONED".to_string()),
        Just("LAYERS".to_string()),
        Just("SI".to_string()),
        (1u32..40).prop_map(|i| format!("SPACE-V{}", i)),
        "[A-Z][A-Z-]{1,12}[A-Z]",
    ]
    .prop_filter("not numeric", |w| !is_numeric_token(w))
    .boxed()
}

fn val() -> BoxedStrategy<Val> {
    prop_oneof![
        4 => num_token().prop_map(Val::Num),
        2 => word().prop_map(Val::Word),
        4 => (name(), prop_oneof![8 => Just(0u8), 1 => 1u8..3]).prop_map(|(text, pad)| Val::Quoted { text, pad }),
        1 => num_token().prop_map(|t| Val::Quoted { text: t, pad: 0 }),
        // a continuation line must not start with '+' (the parser drops such lines as legacy LIDER headers;
        // HULC never prints a sign): list items carry no '+'
        2 => proptest::collection::vec(num_token(), 1..30).prop_map(|v| Val::NumList(v.into_iter().map(|t| t.trim_start_matches('+').to_string()).collect())),
        2 => proptest::collection::vec(name(), 1..8).prop_map(Val::NameList),
    ]
    .boxed()
}

pub fn attr() -> BoxedStrategy<Attr> {
    (key(), val(), prop_oneof![2 => Just(0u8), 1 => 1u8..6], any::<bool>(), (0u8..12, 0u8..4), prop_oneof![2 => Just(0u8), 1 => 8u8..18], prop_oneof![6 => Just(false), 1 => Just(true)], prop_oneof![8 => Just(false), 1 => Just(true)])
        .prop_map(|(key, val, brk, close_own_line, sp, width, comment_before, tab)| Attr {
            key,
            val,
            brk,
            close_own_line,
            sp,
            width,
            comment_before,
            tab,
        })
        .boxed()
}

fn blk() -> BoxedStrategy<Blk> {
    (
        name(),
        (0..BLOCK_TYPES.len()).prop_map(|i| BLOCK_TYPES[i].to_string()),
        proptest::collection::vec(attr(), 1..10),
        0u8..12,
        0u8..3,
        prop_oneof![4 => Just(false), 1 => Just(true)],
        0u8..16,
        prop_oneof![8 => Just(0u8), 1 => 1u8..3],
    )
        .prop_map(|(name, btype, mut attrs, indent, blank_before, comment_before, term_indent, name_pad)| {
            // HULC never repeats a key inside a block
            let mut seen = std::collections::HashSet::new();
            attrs.retain(|a| seen.insert(a.key.clone()));
            Blk {
                name,
                btype,
                attrs,
                indent,
                blank_before,
                comment_before,
                term_indent,
                name_pad,
            }
        })
        .boxed()
}

pub fn doc() -> BoxedStrategy<Doc> {
    (
        proptest::collection::vec(blk(), 1..=40),
        any::<bool>(),
        prop_oneof![3 => Just(vec![]), 1 => proptest::collection::vec(attr(), 1..5)],
        prop_oneof![3 => Just(false), 1 => Just(true)],
        prop_oneof![3 => Just(false), 1 => Just(true)],
        prop_oneof![3 => Just(false), 1 => Just(true)],
    )
        .prop_map(|(mut blocks, crlf, mut preamble, legacy_header, separators, trailing_keywords)| {
            // PARTELIDER blocks only arise from the preamble; a generated one would be legal but is re-typed below
            for b in &mut blocks {
                if b.btype == "PARTELIDER" {
                    b.btype = "DESCRIPTION".into();
                }
            }
            // preamble values are single-line scalars (as in LIDER files)
            for a in &mut preamble {
                a.brk = 0;
                if matches!(a.val, Val::NumList(_) | Val::NameList(_)) {
                    a.val = Val::Word("SI".into());
                }
                a.comment_before = false;
            }
            let mut seen = std::collections::HashSet::new();
            preamble.retain(|a| seen.insert(a.key.clone()));
            Doc {
                blocks,
                crlf,
                preamble,
                legacy_header,
                separators,
                trailing_keywords,
            }
        })
        .boxed()
}

// ------------------------------------------------------------------ printer

pub fn doc_has_general_data(d: &Doc) -> bool {
    // the two markers after which the parser ends the LIDER part
    d.blocks.first().map_or(false, |b| b.name_pad == 0 && ((b.name == "DATOS GENERALES" && b.btype == "GENERAL-DATA") || (b.name == "Defecto" && b.btype == "DESCRIPTION")))
}

fn print_val(a: &Attr, pad: &str) -> Vec<String> {
    match &a.val {
        Val::Num(t) => {
            if a.width as usize > t.len() {
                vec![format!("{:>w$}", t, w = a.width as usize)]
            } else {
                vec![t.clone()]
            }
        }
        Val::Word(w) => vec![w.clone()],
        Val::Quoted { text, pad } => {
            let p = " ".repeat(*pad as usize);
            vec![format!("\"{}{}{}\"", p, text, p)]
        }
        Val::NumList(items) => list_lines(items.iter().map(|s| s.to_string()).collect(), a, pad),
        Val::NameList(items) => list_lines(items.iter().map(|s| format!("\"{}\"", s)).collect(), a, pad),
    }
}

fn list_lines(items: Vec<String>, a: &Attr, pad: &str) -> Vec<String> {
    if a.brk == 0 || items.len() <= a.brk as usize {
        return vec![format!("( {} )", items.join(", "))];
    }
    let mut lines = vec![];
    let chunks: Vec<&[String]> = items.chunks(a.brk as usize).collect();
    for (i, c) in chunks.iter().enumerate() {
        let last = i + 1 == chunks.len();
        let mut l = String::new();
        if i == 0 {
            l.push_str("( ");
        } else {
            l.push_str(pad);
        }
        l.push_str(&c.join(", "));
        if !last {
            l.push(',');
        } else if !a.close_own_line {
            l.push_str(" )");
        }
        lines.push(l);
    }
    if a.close_own_line {
        lines.push(format!("{})", pad));
    }
    lines
}

pub fn print_attr(a: &Attr, indent: &str) -> Vec<String> {
    let mut out = vec![];
    if a.comment_before {
        out.push(format!("{}$ {} = \"comentario .. con puntos\"", indent, a.key));
    }
    let before = if a.tab { "\t".to_string() } else { " ".repeat(a.sp.0 as usize) };
    let after = " ".repeat(a.sp.1 as usize);
    let cont = format!("{}      ", indent);
    let vl = print_val(a, &cont);
    out.push(format!("{}{}{}={}{}", indent, a.key, before, after, vl[0]));
    for l in &vl[1..] {
        out.push(l.clone());
    }
    out
}

pub fn print_block(b: &Blk) -> Vec<String> {
    let mut out = vec![];
    for _ in 0..b.blank_before {
        out.push(String::new());
    }
    if b.comment_before {
        out.push("$ ----------- comentario = \"x\" ..".to_string());
    }
    let ind = " ".repeat(b.indent as usize);
    let np = " ".repeat(b.name_pad as usize);
    out.push(format!("{}\"{}{}{}\" = {}", ind, np, b.name, np, b.btype));
    let ai = format!("{}    ", ind);
    for a in &b.attrs {
        out.extend(print_attr(a, &ai));
    }
    out.push(format!("{}..", " ".repeat(b.term_indent as usize)));
    out
}

pub fn print_doc(d: &Doc) -> String {
    let mut lines: Vec<String> = vec![];
    if d.legacy_header {
        lines.push("+----------------------------------------------------+".into());
        lines.push("+ LIDER -- archivo de datos                           ".into());
        lines.push("ÿ".into());
    }
    if !d.preamble.is_empty() {
        for a in &d.preamble {
            lines.extend(print_attr(a, "  "));
        }
        // the general data block follows the preamble; print a minimal one unless the document brings its own
        if !doc_has_general_data(d) {
            lines.push("\"DATOS GENERALES\" = GENERAL-DATA".into());
            lines.push("   ENGLISH = NO".into());
            lines.push("   ..".into());
        }
    }
    for (i, b) in d.blocks.iter().enumerate() {
        if d.separators && i % 7 == 3 {
            lines.push(["MARCOS", "HUECOS", "PUENTES TERMICOS", "TEMPLARY = X"][i % 4].to_string());
        }
        lines.extend(print_block(b));
    }
    if d.trailing_keywords {
        lines.push("END ..".into());
        lines.push("COMPUTE ..".into());
        lines.push("STOP ..".into());
    }
    let eol = if d.crlf { "\r\n" } else { "\n" };
    let mut s = lines.join(eol);
    s.push_str(eol);
    s
}

// ------------------------------------------------------------------ expectations

#[derive(Clone, Debug, PartialEq)]
pub enum ExpVal {
    Number(f32),
    Text(String),
}

pub fn expected_attr(a: &Attr) -> ExpVal {
    let typed = |s: String| match s.trim().parse::<f32>() {
        Ok(n) => ExpVal::Number(n),
        Err(_) => ExpVal::Text(s.trim().to_string()),
    };
    match &a.val {
        Val::Num(t) => typed(t.clone()),
        Val::Word(w) => typed(w.clone()),
        Val::Quoted { text, .. } => typed(text.clone()),
        // lists keep their text with the line breaks removed; continuation lines are trimmed and concatenated
        Val::NumList(items) => ExpVal::Text(list_text(items.iter().map(|s| s.to_string()).collect(), a)),
        Val::NameList(items) => ExpVal::Text(list_text(items.iter().map(|s| format!("\"{}\"", s)).collect(), a)),
    }
}

fn list_text(items: Vec<String>, a: &Attr) -> String {
    if a.brk == 0 || items.len() <= a.brk as usize {
        return format!("( {} )", items.join(", "));
    }
    let chunks: Vec<&[String]> = items.chunks(a.brk as usize).collect();
    let mut s = String::from("( ");
    for (i, c) in chunks.iter().enumerate() {
        let last = i + 1 == chunks.len();
        s.push_str(&c.join(", "));
        if !last {
            s.push(',');
        } else if !a.close_own_line {
            s.push_str(" )");
        }
    }
    if a.close_own_line {
        s.push(')');
    }
    s
}

/// expected (name, type, parent) of each block, in document order, including the synthetic ones
pub fn expected_blocks(d: &Doc) -> Vec<(String, String, Option<String>)> {
    let mut out = vec![];
    if !d.preamble.is_empty() {
        out.push(("PARTELIDER".to_string(), "PARTELIDER".to_string(), None));
        if !doc_has_general_data(d) {
            out.push(("DATOS GENERALES".to_string(), "GENERAL-DATA".to_string(), None));
        }
    }
    let (mut floor, mut space, mut wall) = ("Default".to_string(), String::new(), String::new());
    for b in &d.blocks {
        let parent = match b.btype.as_str() {
            "FLOOR" => {
                floor = b.name.clone();
                None
            }
            "SPACE" => {
                space = b.name.clone();
                Some(floor.clone())
            }
            "EXTERIOR-WALL" | "INTERIOR-WALL" | "ROOF" | "UNDERGROUND-WALL" | "UNDERGROUND-FLOOR" => {
                wall = b.name.clone();
                Some(space.clone())
            }
            "CONSTRUCTION" | "WINDOW" | "DOOR" => Some(wall.clone()),
            _ => None,
        };
        out.push((b.name.clone(), b.btype.clone(), parent));
    }
    out
}
