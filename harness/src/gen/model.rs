//! Envelope model generator (DESIGN 2.1): a serialisable *plan* of primitive data and a pure
//! function plan -> bemodel::Model. Construction, never rejection. Ids are a function of
//! (kind, index, salt), so they are unique by construction and stable under shrinking.

use proptest::prelude::*;
use serde::{Deserialize, Serialize};

use bemodel::climatedata::ClimateZone;
use bemodel::{
    BoundaryType, ConsDb, Frame, Glass, Layer, MatProps, Material, Meta, Model, PropsOverrides,
    Schedule, ScheduleDay, ScheduleWeek, SchedulesDb, Shade, Space, SpaceLoads, SpaceType,
    ThermalBridge, ThermalBridgeKind, Thermostat, Uuid, Wall, WallCons, WallGeom,
    WallPropsOverrides, WinCons, WinGeom, WinPropsOverrides, Window,
};

use super::geom::{dec2, dec3, num, PosedPoly, P2};

pub const ZONES: [&str; 32] = [
    "A1c", "A2c", "A3c", "A4c", "Alfa1c", "Alfa2c", "Alfa3c", "Alfa4c", "B1c", "B2c", "B3c", "B4c",
    "C1c", "C2c", "C3c", "C4c", "D1c", "D2c", "D3c", "E1c", "A3", "A4", "B3", "B4", "C1", "C2",
    "C3", "C4", "D1", "D2", "D3", "E1",
];

pub fn zone(i: u8) -> ClimateZone {
    ClimateZone::try_from(ZONES[i as usize % 32]).expect("zone name")
}

pub fn uid(kind: u8, idx: usize, salt: u32) -> Uuid {
    // v4-looking (version nibble 4, variant 10), unique per (kind, idx, salt)
    let v: u128 = ((salt as u128) << 96)
        | ((kind as u128) << 88)
        | (0x4u128 << 76)
        | (0x8u128 << 60)
        | ((idx as u128 + 1) & 0xFFFF_FFFF_FFFF);
    Uuid::from_u128(v)
}

pub fn pick(p: u16, len: usize) -> usize {
    (p as usize * len) >> 16
}

// ------------------------------------------------------------------ plan types

#[derive(Clone, Debug, Serialize, Deserialize)]
pub struct MetaP {
    pub zone: u8,
    pub new: bool,
    pub dwelling: bool,
    pub vent: Option<f32>,
    pub n50: Option<f32>,
    pub d_ins: f32,
    pub rn_ins: f32,
}

#[derive(Clone, Debug, Serialize, Deserialize)]
pub struct MatP {
    pub detailed: bool,
    pub conductivity: f32,
    pub resistance: f32,
    pub vapour: Option<f32>,
}

#[derive(Clone, Debug, Serialize, Deserialize)]
pub struct WallConsP {
    pub layers: Vec<(u16, f32)>,
    pub absorptance: f32,
}

#[derive(Clone, Debug, Serialize, Deserialize)]
pub struct WinConsP {
    pub glass: u16,
    pub frame: u16,
    pub f_f: f32,
    pub delta_u: f32,
    pub g_glshwi: Option<f32>,
    pub c_100: f32,
}

#[derive(Clone, Debug, Serialize, Deserialize)]
pub struct WinP {
    /// slot fractions inside the wall rectangle
    pub fx: f32,
    pub fy: f32,
    pub fw: f32,
    pub fh: f32,
    pub setback: f32,
    pub cons: Option<u16>,
    pub positioned: bool,
    pub over_u: Option<f32>,
    pub over_fsh: Option<f32>,
}

#[derive(Clone, Debug, Serialize, Deserialize)]
pub struct ElemP {
    /// 0 EXTERIOR, 1 GROUND, 2 INTERIOR, 3 ADIABATIC
    pub bounds: u8,
    pub cons: u16,
    /// for INTERIOR: Some(pick of another space) or None
    pub next_to: Option<u16>,
    /// offset inside the tilt class (0..1): 0 = canonical tilt (0 / 90 / 180)
    pub tilt_off: f32,
    pub windows: Vec<WinP>,
    pub positioned: bool,
    pub over_u: Option<f32>,
}

#[derive(Clone, Debug, Serialize, Deserialize)]
pub struct SpaceP {
    /// 0 CONDITIONED, 1 UNCONDITIONED, 2 UNINHABITED
    pub kind: u8,
    pub inside: bool,
    pub mult: f32,
    pub height: f32,
    pub z: f32,
    pub n_v: Option<f32>,
    pub ox: f32,
    pub oy: f32,
    pub w: f32,
    pub d: f32,
    /// footprint rotation (degrees) about (ox, oy)
    pub rot: f32,
    pub floors: Vec<ElemP>,
    /// ceiling: None, or Some(elem, owned_by_self)
    pub ceiling: Option<(ElemP, bool)>,
    pub sides: Vec<ElemP>,
    pub loads: Option<u16>,
    pub thermostat: Option<u16>,
    pub illuminance: Option<f32>,
}

#[derive(Clone, Debug, Serialize, Deserialize)]
pub struct TbP {
    pub kind: u8,
    pub l: f32,
    pub psi: f32,
}

#[derive(Clone, Debug, Serialize, Deserialize)]
pub struct LoadsP {
    pub area_per_person: f32,
    pub people: Option<u16>,
    pub sens: f32,
    pub lat: f32,
    pub equip: f32,
    pub equip_sch: Option<u16>,
    pub light: f32,
    pub light_sch: Option<u16>,
}

#[derive(Clone, Debug, Serialize, Deserialize)]
pub struct UseP {
    pub days: Vec<Vec<f32>>,
    /// each week = runs (day pick, count) summing to 7
    pub weeks: Vec<Vec<(u16, u32)>>,
    /// each year = periods (week pick, days) summing to 365
    pub years: Vec<Vec<(u16, u32)>>,
    pub loads: Vec<LoadsP>,
    pub thermostats: Vec<(Option<u16>, Option<u16>)>,
}

#[derive(Clone, Debug, Serialize, Deserialize)]
pub struct BreakP {
    /// 0 wall.space 1 wall.cons 2 wall.next_to 3 window.wall 4 window.cons 5 layer.material
    /// 6 wincons.glass 7 wincons.frame 8 space.loads 9 space.thermostat 10 loads.schedule
    /// 11 year.week 12 week.day
    pub kind: u8,
    pub target: u16,
    pub nil: bool,
}

#[derive(Clone, Debug, Serialize, Deserialize)]
pub struct Plan {
    pub salt: u32,
    /// referentially closed by construction (no breaks, every window has a construction)
    pub closed: bool,
    pub named: bool,
    pub meta: MetaP,
    pub materials: Vec<MatP>,
    pub wallcons: Vec<WallConsP>,
    pub glasses: Vec<(f32, f32)>,
    pub frames: Vec<(f32, f32)>,
    pub wincons: Vec<WinConsP>,
    pub spaces: Vec<SpaceP>,
    pub shades: Vec<PosedPoly>,
    pub bridges: Vec<TbP>,
    pub uses: UseP,
    pub breaks: Vec<BreakP>,
}

// ------------------------------------------------------------------ strategies

#[derive(Clone, Copy, Debug)]
pub struct Params {
    pub max_spaces: usize,
    /// allow broken references (open models)
    pub open: bool,
    /// generate schedules/loads/thermostats
    pub uses: bool,
    pub shades: usize,
    /// 0..=1: probability-like weight of non-canonical tilts
    pub odd_tilts: bool,
    /// allow windows / walls without position
    pub unpositioned: bool,
    pub overrides: bool,
}

impl Default for Params {
    fn default() -> Self {
        Params {
            max_spaces: 5,
            open: false,
            uses: true,
            shades: 3,
            odd_tilts: true,
            unpositioned: true,
            overrides: true,
        }
    }
}

fn opt<T: std::fmt::Debug + Clone + 'static>(w_none: u32, s: BoxedStrategy<T>) -> BoxedStrategy<Option<T>> {
    prop_oneof![w_none => Just(None), 3 => s.prop_map(Some)].boxed()
}

fn meta_p() -> BoxedStrategy<MetaP> {
    (
        0u8..32,
        any::<bool>(),
        any::<bool>(),
        opt(1, dec2(5.0, 2000.0)),
        opt(2, dec2(0.3, 15.0)),
        prop_oneof![2 => Just(0.0f32), 1 => dec2(0.1, 3.0)],
        prop_oneof![2 => Just(0.0f32), 1 => dec2(0.1, 5.0)],
    )
        .prop_map(|(zone, new, dwelling, vent, n50, d_ins, rn_ins)| MetaP {
            zone,
            new,
            dwelling,
            vent,
            n50,
            d_ins,
            rn_ins,
        })
        .boxed()
}

fn mat_p() -> BoxedStrategy<MatP> {
    (any::<bool>(), num(0.02, 3.0), num(0.02, 4.0), opt(1, dec2(1.0, 200.0)))
        .prop_map(|(detailed, conductivity, resistance, vapour)| MatP {
            detailed,
            conductivity,
            resistance,
            vapour,
        })
        .boxed()
}

fn wallcons_p() -> BoxedStrategy<WallConsP> {
    // layer thickness: millimetres; one layer in twelve has thickness 0 (air chambers and membranes entered by their resistance)
    (proptest::collection::vec((any::<u16>(), prop_oneof![11 => dec3(0.005, 0.4), 1 => Just(0.0f32)]), 0..=5), dec2(0.1, 0.95))
        .prop_map(|(layers, absorptance)| WallConsP { layers, absorptance })
        .boxed()
}

fn wincons_p() -> BoxedStrategy<WinConsP> {
    (
        any::<u16>(),
        any::<u16>(),
        prop_oneof![1 => Just(0.0f32), 1 => Just(1.0f32), 6 => dec2(0.0, 1.0)],
        prop_oneof![1 => Just(0.0f32), 3 => dec2(0.0, 50.0)],
        opt(1, dec2(0.02, 0.9)),
        prop_oneof![4 => prop_oneof![Just(3.0f32), Just(9.0f32), Just(27.0f32), Just(50.0f32), Just(100.0f32)], 4 => dec2(1.0, 100.0), 1 => Just(0.0f32), 1 => dec2(0.0, 1.0)],
    )
        .prop_map(|(glass, frame, f_f, delta_u, g_glshwi, c_100)| WinConsP {
            glass,
            frame,
            f_f,
            delta_u,
            g_glshwi,
            c_100,
        })
        .boxed()
}

fn win_p(p: Params) -> BoxedStrategy<WinP> {
    (
        // (fw, fh) = (1, 1): the only window of a wall then covers the whole wall (a fully glazed facade)
        prop_oneof![14 => (dec2(0.0, 1.0), dec2(0.0, 1.0), dec2(0.2, 0.9), dec2(0.2, 0.9)), 1 => (dec2(0.0, 1.0), dec2(0.0, 1.0), Just(1.0f32), Just(1.0f32))],
        prop_oneof![2 => Just(0.0f32), 2 => dec2(0.01, 1.0)],
        prop_oneof![1 => Just(None), 8 => any::<u16>().prop_map(Some)],
        if p.unpositioned { prop_oneof![1 => Just(false), 8 => Just(true)].boxed() } else { Just(true).boxed() },
        if p.overrides { opt(6, prop_oneof![3 => dec2(0.05, 6.0), 1 => (500i64..=60000).prop_map(|i| i as f32 / 10000.0)].boxed()) } else { Just(None).boxed() },
        if p.overrides { opt(6, dec2(0.0, 1.0)) } else { Just(None).boxed() },
    )
        .prop_map(|((fx, fy, fw, fh), setback, cons, positioned, over_u, over_fsh)| WinP {
            fx,
            fy,
            fw,
            fh,
            setback,
            cons,
            positioned,
            over_u,
            over_fsh,
        })
        .boxed()
}

fn elem_p(p: Params, max_windows: usize, bounds_weights: [u32; 4]) -> BoxedStrategy<ElemP> {
    let [we, wg, wi, wa] = bounds_weights;
    (
        prop_oneof![we => Just(0u8), wg => Just(1u8), wi => Just(2u8), wa => Just(3u8)],
        any::<u16>(),
        prop_oneof![1 => Just(None), 4 => any::<u16>().prop_map(Some)],
        if p.odd_tilts { prop_oneof![5 => Just(0.0f32), 2 => dec3(0.0, 0.999), 1 => Just(0.999f32)].boxed() } else { Just(0.0f32).boxed() },
        proptest::collection::vec(win_p(p), 0..=max_windows),
        if p.unpositioned { prop_oneof![1 => Just(false), 12 => Just(true)].boxed() } else { Just(true).boxed() },
        // user U values: two decimals as the tools write them, one in four with four decimals (entered by hand)
        if p.overrides { opt(8, prop_oneof![3 => dec2(0.05, 6.0), 1 => (500i64..=60000).prop_map(|i| i as f32 / 10000.0)].boxed()) } else { Just(None).boxed() },
    )
        .prop_map(|(bounds, cons, next_to, tilt_off, windows, positioned, over_u)| ElemP {
            bounds,
            cons,
            next_to,
            tilt_off,
            windows,
            positioned,
            over_u,
        })
        .boxed()
}

fn space_p(p: Params) -> BoxedStrategy<SpaceP> {
    (
        (
            prop_oneof![3 => Just(0u8), 1 => Just(1u8), 1 => Just(2u8)],
            prop_oneof![4 => Just(true), 1 => Just(false)],
            prop_oneof![3 => Just(1.0f32), 1 => (2u32..=12).prop_map(|m| m as f32)],
            prop_oneof![5 => dec2(2.2, 6.0), 1 => super::geom::dec3(2.2, 6.0)],
            prop_oneof![3 => Just(0.0f32), 1 => dec2(-6.0, -0.1), 1 => dec2(0.1, 12.0)],
            opt(2, dec2(0.1, 10.0)),
        ),
        // footprint sizes: usually whole centimetres, one in six with millimetres
        (dec2(-30.0, 30.0), dec2(-30.0, 30.0), prop_oneof![5 => dec2(2.0, 20.0), 1 => super::geom::dec3(2.0, 20.0)], prop_oneof![5 => dec2(2.0, 15.0), 1 => super::geom::dec3(2.0, 15.0)], prop_oneof![2 => Just(0.0f32), 1 => dec2(0.0, 359.0)]),
        // floor slabs; one space in eight may have glazing in a floor (a glazed floor over a porch)
        prop_oneof![7 => proptest::collection::vec(elem_p(p, 0, [2, 4, 2, 1]), 1..=2), 1 => proptest::collection::vec(elem_p(p, 1, [4, 2, 2, 1]), 1..=2)],
        prop_oneof![1 => Just(None), 5 => (elem_p(p, 1, [5, 1, 3, 1]), prop_oneof![3 => Just(true), 1 => Just(false)]).prop_map(Some)],
        // four side walls; one space in ten is only partly enclosed or has no side wall at all (a model being
        // entered element by element: space + slab + roof before the facades)
        prop_oneof![9 => proptest::collection::vec(elem_p(p, 3, [6, 2, 2, 1]), 4..=4), 1 => proptest::collection::vec(elem_p(p, 3, [6, 2, 2, 1]), 0..=3)],
        (opt(1, any::<u16>().boxed()), opt(1, any::<u16>().boxed()), opt(3, dec2(0.0, 800.0))),
    )
        .prop_map(|((kind, inside, mult, height, z, n_v), (ox, oy, w, d, rot), floors, ceiling, sides, (loads, thermostat, illuminance))| SpaceP {
            kind,
            inside,
            mult,
            height,
            z,
            n_v,
            ox,
            oy,
            w,
            d,
            rot,
            floors,
            ceiling,
            sides,
            loads,
            thermostat,
            illuminance,
        })
        .boxed()
}

fn tb_p() -> BoxedStrategy<TbP> {
    (
        0u8..9,
        prop_oneof![1 => Just(0.0f32), 1 => Just(-0.0f32), 6 => dec2(0.01, 300.0), 2 => dec2(-300.0, -0.01), 1 => prop_oneof![Just(-0.004f32), Just(-0.0051f32), Just(-1e-6f32), Just(0.004f32), super::geom::dec3(-0.02, 0.02)]],
        dec2(-0.2, 1.5),
    )
        .prop_map(|(kind, l, psi)| TbP { kind, l, psi })
        .boxed()
}

/// composition of `total` into 1..=max_parts positive parts
pub fn composition(total: u32, max_parts: usize) -> BoxedStrategy<Vec<u32>> {
    proptest::collection::vec(1u32..=total, 0..max_parts)
        .prop_map(move |cuts| {
            let mut c: Vec<u32> = cuts.into_iter().filter(|x| *x < total).collect();
            c.sort_unstable();
            c.dedup();
            let mut parts = vec![];
            let mut last = 0;
            for x in c {
                parts.push(x - last);
                last = x;
            }
            parts.push(total - last);
            parts
        })
        .boxed()
}

fn day_values() -> BoxedStrategy<Vec<f32>> {
    prop_oneof![
        1 => Just(vec![0.0f32; 24]),
        1 => dec2(0.01, 1.0).prop_map(|v| vec![v; 24]),
        4 => proptest::collection::vec(prop_oneof![1 => Just(0.0f32), 1 => dec2(0.01, 1.0)], 24),
        1 => proptest::collection::vec(dec2(-30.0, 999.0), 24),
    ]
    .boxed()
}

fn use_p(p: Params) -> BoxedStrategy<UseP> {
    if !p.uses {
        return Just(UseP {
            days: vec![],
            weeks: vec![],
            years: vec![],
            loads: vec![],
            thermostats: vec![],
        })
        .boxed();
    }
    let week = composition(7, 7).prop_flat_map(|parts| {
        let n = parts.len();
        proptest::collection::vec(any::<u16>(), n).prop_map(move |picks| picks.into_iter().zip(parts.clone()).collect::<Vec<(u16, u32)>>())
    });
    let year = composition(365, 12).prop_flat_map(|parts| {
        let n = parts.len();
        proptest::collection::vec(any::<u16>(), n).prop_map(move |picks| picks.into_iter().zip(parts.clone()).collect::<Vec<(u16, u32)>>())
    });
    let loads = (
        dec2(1.0, 50.0),
        opt(1, any::<u16>().boxed()),
        dec2(0.0, 20.0),
        dec2(0.0, 15.0),
        dec2(0.0, 30.0),
        opt(1, any::<u16>().boxed()),
        dec2(0.0, 30.0),
        opt(1, any::<u16>().boxed()),
    )
        .prop_map(|(area_per_person, people, sens, lat, equip, equip_sch, light, light_sch)| LoadsP {
            area_per_person,
            people,
            sens,
            lat,
            equip,
            equip_sch,
            light,
            light_sch,
        });
    (
        proptest::collection::vec(day_values(), 1..=5),
        proptest::collection::vec(week, 1..=4),
        proptest::collection::vec(year, 1..=4),
        proptest::collection::vec(loads, 0..=3),
        proptest::collection::vec((opt(1, any::<u16>().boxed()), opt(1, any::<u16>().boxed())), 0..=2),
    )
        .prop_map(|(days, weeks, years, loads, thermostats)| UseP {
            days,
            weeks,
            years,
            loads,
            thermostats,
        })
        .boxed()
}

fn break_p() -> BoxedStrategy<BreakP> {
    (0u8..13, any::<u16>(), prop_oneof![3 => Just(false), 1 => Just(true)])
        .prop_map(|(kind, target, nil)| BreakP { kind, target, nil })
        .boxed()
}

pub fn plan(p: Params) -> BoxedStrategy<Plan> {
    (
        (any::<u32>(), any::<bool>(), meta_p()),
        (
            proptest::collection::vec(mat_p(), 1..=6),
            proptest::collection::vec(wallcons_p(), 1..=5),
            proptest::collection::vec((dec2(0.5, 6.0), dec2(0.1, 0.9)), 0..=3),
            proptest::collection::vec((dec2(0.8, 7.0), dec2(0.1, 0.95)), 0..=3),
            proptest::collection::vec(wincons_p(), 0..=4),
        ),
        proptest::collection::vec(space_p(p), 1..=p.max_spaces),
        proptest::collection::vec(super::geom::posed_poly(), 0..=p.shades),
        proptest::collection::vec(tb_p(), 0..=12),
        use_p(p),
        if p.open { proptest::collection::vec(break_p(), 0..=4).boxed() } else { Just(vec![]).boxed() },
    )
        .prop_map(move |((salt, named, meta), (materials, wallcons, glasses, frames, wincons), spaces, shades, bridges, uses, breaks)| Plan {
            salt,
            closed: !p.open,
            named,
            meta,
            materials,
            wallcons,
            glasses,
            frames,
            wincons,
            spaces,
            shades,
            bridges,
            uses,
            breaks,
        })
        .boxed()
}

// ------------------------------------------------------------------ plan -> model

pub const K_SPACE: u8 = 1;
pub const K_WALL: u8 = 2;
pub const K_WIN: u8 = 3;
pub const K_TB: u8 = 4;
pub const K_SHADE: u8 = 5;
pub const K_WALLCONS: u8 = 6;
pub const K_WINCONS: u8 = 7;
pub const K_MAT: u8 = 8;
pub const K_GLASS: u8 = 9;
pub const K_FRAME: u8 = 10;
pub const K_DAY: u8 = 11;
pub const K_WEEK: u8 = 12;
pub const K_YEAR: u8 = 13;
pub const K_LOADS: u8 = 14;
pub const K_THERM: u8 = 15;
pub const K_FRESH: u8 = 200;

fn bounds_of(b: u8) -> BoundaryType {
    match b % 4 {
        0 => BoundaryType::EXTERIOR,
        1 => BoundaryType::GROUND,
        2 => BoundaryType::INTERIOR,
        _ => BoundaryType::ADIABATIC,
    }
}

pub fn tb_kind(k: u8) -> ThermalBridgeKind {
    use ThermalBridgeKind::*;
    [ROOF, BALCONY, CORNER, INTERMEDIATEFLOOR, INTERNALWALL, GROUNDFLOOR, PILLAR, WINDOW, GENERIC][k as usize % 9]
}

fn r2(v: f32) -> f32 {
    (v * 100.0).round() / 100.0
}

/// Builds the model of a plan. Deterministic and total.
pub fn build(pl: &Plan) -> Model {
    let salt = pl.salt;
    let name = |k: &str, i: usize| if pl.named { format!("{}{}", k, i) } else { String::new() };
    let nm = pl.materials.len();
    let materials: Vec<Material> = pl
        .materials
        .iter()
        .enumerate()
        .map(|(i, m)| Material {
            id: uid(K_MAT, i, salt),
            name: name("mat", i),
            properties: if m.detailed {
                MatProps::Detailed {
                    conductivity: m.conductivity,
                    density: 1000.0 + i as f32,
                    specific_heat: 1000.0,
                    vapour_diff: m.vapour,
                }
            } else {
                MatProps::Resistance {
                    resistance: m.resistance,
                    vapour_diff: m.vapour,
                }
            },
        })
        .collect();
    let wallcons: Vec<WallCons> = pl
        .wallcons
        .iter()
        .enumerate()
        .map(|(i, c)| WallCons {
            id: uid(K_WALLCONS, i, salt),
            name: name("wc", i),
            layers: c
                .layers
                .iter()
                .map(|(m, e)| Layer {
                    material: uid(K_MAT, pick(*m, nm), salt),
                    e: *e,
                })
                .collect(),
            absorptance: c.absorptance,
        })
        .collect();
    let glasses: Vec<Glass> = pl
        .glasses
        .iter()
        .enumerate()
        .map(|(i, (u, g))| Glass {
            id: uid(K_GLASS, i, salt),
            name: name("gl", i),
            u_value: *u,
            g_gln: *g,
        })
        .collect();
    let frames: Vec<Frame> = pl
        .frames
        .iter()
        .enumerate()
        .map(|(i, (u, a))| Frame {
            id: uid(K_FRAME, i, salt),
            name: name("fr", i),
            u_value: *u,
            absorptivity: *a,
        })
        .collect();
    // window constructions need a glass and a frame to be closed; when a library is empty the
    // construction list is empty too
    let wincons: Vec<WinCons> = if glasses.is_empty() || frames.is_empty() {
        vec![]
    } else {
        pl.wincons
            .iter()
            .enumerate()
            .map(|(i, c)| WinCons {
                id: uid(K_WINCONS, i, salt),
                name: name("wnc", i),
                glass: glasses[pick(c.glass, glasses.len())].id,
                frame: frames[pick(c.frame, frames.len())].id,
                f_f: c.f_f,
                delta_u: c.delta_u,
                g_glshwi: c.g_glshwi,
                c_100: c.c_100,
            })
            .collect()
    };

    // use definitions
    let u = &pl.uses;
    let day: Vec<ScheduleDay> = u
        .days
        .iter()
        .enumerate()
        .map(|(i, v)| ScheduleDay {
            id: uid(K_DAY, i, salt),
            name: name("day", i),
            values: v.clone(),
        })
        .collect();
    let week: Vec<ScheduleWeek> = if day.is_empty() {
        vec![]
    } else {
        u.weeks
            .iter()
            .enumerate()
            .map(|(i, runs)| ScheduleWeek {
                id: uid(K_WEEK, i, salt),
                name: name("week", i),
                values: runs.iter().map(|(d, c)| (day[pick(*d, day.len())].id, *c)).collect(),
            })
            .collect()
    };
    let year: Vec<Schedule> = if week.is_empty() {
        vec![]
    } else {
        u.years
            .iter()
            .enumerate()
            .map(|(i, per)| Schedule {
                id: uid(K_YEAR, i, salt),
                name: name("year", i),
                values: per.iter().map(|(w, c)| (week[pick(*w, week.len())].id, *c)).collect(),
            })
            .collect()
    };
    let ysch = |p: &Option<u16>| -> Option<Uuid> {
        if year.is_empty() {
            None
        } else {
            p.map(|p| year[pick(p, year.len())].id)
        }
    };
    let loads: Vec<SpaceLoads> = u
        .loads
        .iter()
        .enumerate()
        .map(|(i, l)| SpaceLoads {
            id: uid(K_LOADS, i, salt),
            name: name("loads", i),
            area_per_person: l.area_per_person,
            people_schedule: ysch(&l.people),
            people_sensible: l.sens,
            people_latent: l.lat,
            equipment: l.equip,
            equipment_schedule: ysch(&l.equip_sch),
            lighting: l.light,
            lighting_schedule: ysch(&l.light_sch),
        })
        .collect();
    let thermostats: Vec<Thermostat> = u
        .thermostats
        .iter()
        .enumerate()
        .map(|(i, (a, b))| Thermostat {
            id: uid(K_THERM, i, salt),
            name: name("th", i),
            temp_max: ysch(a),
            temp_min: ysch(b),
        })
        .collect();

    let ns = pl.spaces.len();
    let spaces: Vec<Space> = pl
        .spaces
        .iter()
        .enumerate()
        .map(|(i, s)| Space {
            id: uid(K_SPACE, i, salt),
            name: name("sp", i),
            multiplier: s.mult,
            kind: match s.kind % 3 {
                0 => SpaceType::CONDITIONED,
                1 => SpaceType::UNCONDITIONED,
                _ => SpaceType::UNINHABITED,
            },
            inside_tenv: s.inside,
            height: s.height,
            z: s.z,
            loads: if loads.is_empty() { None } else { s.loads.map(|p| loads[pick(p, loads.len())].id) },
            thermostat: if thermostats.is_empty() { None } else { s.thermostat.map(|p| thermostats[pick(p, thermostats.len())].id) },
            n_v: s.n_v,
            illuminance: s.illuminance,
        })
        .collect();

    let mut walls: Vec<Wall> = vec![];
    let mut windows: Vec<Window> = vec![];
    let mut overrides = PropsOverrides::default();
    let nwc = wallcons.len();

    let mut add_wall = |si: usize,
                        e: &ElemP,
                        tilt: f32,
                        azimuth: f32,
                        pos: [f32; 3],
                        polygon: Vec<P2>,
                        rect: Option<(f32, f32)>,
                        owner_override: Option<(usize, Option<usize>)>| {
        let wi = walls.len();
        let id = uid(K_WALL, wi, salt);
        let bounds = bounds_of(e.bounds);
        // next_to: another space (never itself when there are several)
        let mut next_to = None;
        // other boundary kinds: one in eight keeps a stale reference to another space (what is left behind
        // when a partition is re-declared as a facade; the model checker only asks that the id exists)
        if bounds == BoundaryType::INTERIOR || e.next_to.map_or(false, |p| p % 8 == 3) {
            if let Some(p) = e.next_to {
                let mut j = pick(p, ns);
                if j == si && ns > 1 {
                    j = (j + 1) % ns;
                }
                if j != si {
                    next_to = Some(spaces[j].id);
                }
            }
        }
        let (space_idx, next_idx) = match owner_override {
            Some((o, n)) => (o, n),
            None => (si, None),
        };
        let (space_id, next_to) = if owner_override.is_some() {
            (spaces[space_idx].id, next_idx.map(|n| spaces[n].id))
        } else {
            (spaces[si].id, next_to)
        };
        walls.push(Wall {
            id,
            name: name("wall", wi),
            bounds: if owner_override.is_some() { BoundaryType::INTERIOR } else { bounds },
            cons: wallcons[pick(e.cons, nwc)].id,
            space: space_id,
            next_to,
            geometry: WallGeom {
                tilt,
                azimuth,
                position: if e.positioned { Some(nalgebra::point![pos[0], pos[1], pos[2]]) } else { None },
                polygon: polygon.iter().map(|p| nalgebra::point![p.x, p.y]).collect(),
            },
        });
        if let Some(u) = e.over_u {
            overrides.walls.insert(id, WallPropsOverrides { u_value: Some(u) });
        }
        if let Some((rw, rh)) = rect {
            if pl.closed && wincons.is_empty() {
                return;
            }
            let nwin = e.windows.len();
            for (k, w) in e.windows.iter().enumerate() {
                // slot k of nwin along the width: keeps windows disjoint and their total area < 0.9 wall area
                let slot_w = rw / nwin as f32;
                let full = nwin == 1 && w.fw == 1.0 && w.fh == 1.0;
                let ww = if full { rw } else { r2((slot_w * 0.9 * w.fw.min(0.9)).max(0.05)) };
                let wh = if full { rh } else { r2((rh * 0.9 * w.fh.min(0.9)).max(0.05)) };
                let x = if full { 0.0 } else { r2(k as f32 * slot_w + (slot_w - ww).max(0.0) * w.fx * 0.99) };
                let y = if full { 0.0 } else { r2((rh - wh).max(0.0) * w.fy * 0.99) };
                let wid = uid(K_WIN, windows.len(), salt);
                windows.push(Window {
                    id: wid,
                    name: name("win", windows.len()),
                    cons: match (w.cons, wincons.is_empty()) {
                        (Some(p), false) => wincons[pick(p, wincons.len())].id,
                        (None, false) if pl.closed => wincons[0].id,
                        // "window without construction": dangling by design, only in open plans
                        _ => uid(K_FRESH, 1000 + windows.len(), salt),
                    },
                    wall: id,
                    geometry: WinGeom {
                        position: if w.positioned { Some(nalgebra::point![x, y]) } else { None },
                        height: wh,
                        width: ww,
                        setback: w.setback,
                    },
                });
                if w.over_u.is_some() || w.over_fsh.is_some() {
                    overrides.windows.insert(
                        wid,
                        WinPropsOverrides {
                            u_value: w.over_u,
                            f_shobst: w.over_fsh,
                        },
                    );
                }
            }
        }
    };

    for (si, s) in pl.spaces.iter().enumerate() {
        let (sn, cs) = (s.rot.to_radians().sin(), s.rot.to_radians().cos());
        let corner = |lx: f32, ly: f32| -> (f32, f32) { (s.ox + lx * cs - ly * sn, s.oy + lx * sn + ly * cs) };
        // floors: split the footprint along x into equal strips
        let nf = s.floors.len();
        for (k, e) in s.floors.iter().enumerate() {
            let x0 = s.w * k as f32 / nf as f32;
            let x1 = s.w * (k + 1) as f32 / nf as f32;
            let tilt = 180.0 + if e.tilt_off > 0.0 { (e.tilt_off - 0.5) * 119.9 } else { 0.0 }; // (120, 240)
            let (px, py) = corner(x0, s.d);
            add_wall(
                si,
                e,
                r2(tilt),
                r2(s.rot),
                [px, py, s.z],
                vec![P2 { x: 0.0, y: 0.0 }, P2 { x: x1 - x0, y: 0.0 }, P2 { x: x1 - x0, y: s.d }, P2 { x: 0.0, y: s.d }],
                if e.windows.is_empty() { None } else { Some((x1 - x0, s.d)) },
                None,
            );
        }
        // ceiling
        if let Some((e, own)) = &s.ceiling {
            let poly = vec![P2 { x: 0.0, y: 0.0 }, P2 { x: s.w, y: 0.0 }, P2 { x: s.w, y: s.d }, P2 { x: 0.0, y: s.d }];
            if *own || ns < 2 {
                let tilt = if e.tilt_off > 0.0 { e.tilt_off * 60.0 } else { 0.0 }; // [0, 60)
                let (px, py) = corner(0.0, 0.0);
                add_wall(si, e, r2(tilt), r2(s.rot), [px, py, s.z + s.height], poly, Some((s.w, s.d)), None);
            } else {
                // given from the other side: a floor of the space "above" with next_to = this space
                let above = (si + 1) % ns;
                let (px, py) = corner(0.0, s.d);
                let mut e2 = e.clone();
                e2.windows.clear();
                add_wall(si, &e2, 180.0, r2(s.rot), [px, py, s.z + s.height], poly, None, Some((above, Some(si))));
            }
        }
        // four sides: south, east, north, west of the (rotated) rectangle
        let sides = [
            (0.0f32, (0.0f32, 0.0f32), s.w),
            (90.0, (s.w, 0.0), s.d),
            (180.0, (s.w, s.d), s.w),
            (-90.0, (0.0, s.d), s.d),
        ];
        for (k, e) in s.sides.iter().enumerate().take(4) {
            let (az, (lx, ly), width) = sides[k];
            let tilt = 90.0 + if e.tilt_off > 0.0 { (e.tilt_off - 0.5) * 59.9 } else { 0.0 }; // (60, 120)
            let (px, py) = corner(lx, ly);
            let mut azimuth = az + s.rot;
            if azimuth > 180.0 {
                azimuth -= 360.0;
            }
            add_wall(
                si,
                e,
                r2(tilt),
                r2(azimuth),
                [px, py, s.z],
                vec![P2 { x: 0.0, y: 0.0 }, P2 { x: width, y: 0.0 }, P2 { x: width, y: s.height }, P2 { x: 0.0, y: s.height }],
                Some((width, s.height)),
                None,
            );
        }
    }

    let shades: Vec<Shade> = pl
        .shades
        .iter()
        .enumerate()
        .map(|(i, s)| Shade {
            id: uid(K_SHADE, i, salt),
            name: name("shade", i),
            geometry: s.to_wallgeom(),
        })
        .collect();
    let thermal_bridges: Vec<ThermalBridge> = pl
        .bridges
        .iter()
        .enumerate()
        .map(|(i, t)| ThermalBridge {
            id: uid(K_TB, i, salt),
            name: name("tb", i),
            kind: tb_kind(t.kind),
            l: t.l,
            psi: t.psi,
        })
        .collect();

    let mut model = Model {
        meta: Meta {
            name: if pl.named { "generated".into() } else { String::new() },
            is_new_building: pl.meta.new,
            is_dwelling: pl.meta.dwelling,
            num_dwellings: 1 + (pl.salt % 5) as i32,
            climate: zone(pl.meta.zone),
            global_ventilation_l_s: pl.meta.vent,
            n50_test_ach: pl.meta.n50,
            d_perim_insulation: pl.meta.d_ins,
            rn_perim_insulation: pl.meta.rn_ins,
        },
        spaces,
        walls,
        windows,
        thermal_bridges,
        shades,
        cons: ConsDb {
            wallcons,
            wincons,
            materials,
            glasses,
            frames,
        },
        schedules: SchedulesDb { year, week, day },
        loads,
        thermostats,
        overrides,
        extra: None,
    };
    apply_breaks(&mut model, pl);
    model
}

/// True when the plan asked for a window without a resolvable construction
pub fn has_unresolved_wincons(m: &Model) -> bool {
    m.windows.iter().any(|w| m.cons.get_wincons(w.cons).is_none())
}

fn apply_breaks(m: &mut Model, pl: &Plan) {
    for (bi, b) in pl.breaks.iter().enumerate() {
        let bad = if b.nil { Uuid::nil() } else { uid(K_FRESH, bi, pl.salt) };
        match b.kind {
            0 if !m.walls.is_empty() => {
                let i = pick(b.target, m.walls.len());
                m.walls[i].space = bad;
            }
            1 if !m.walls.is_empty() => {
                let i = pick(b.target, m.walls.len());
                m.walls[i].cons = bad;
            }
            2 if !m.walls.is_empty() => {
                let i = pick(b.target, m.walls.len());
                m.walls[i].next_to = Some(bad);
            }
            3 if !m.windows.is_empty() => {
                let i = pick(b.target, m.windows.len());
                m.windows[i].wall = bad;
            }
            4 if !m.windows.is_empty() => {
                let i = pick(b.target, m.windows.len());
                m.windows[i].cons = bad;
            }
            5 => {
                let cands: Vec<usize> = (0..m.cons.wallcons.len()).filter(|i| !m.cons.wallcons[*i].layers.is_empty()).collect();
                if !cands.is_empty() {
                    let i = cands[pick(b.target, cands.len())];
                    m.cons.wallcons[i].layers[0].material = bad;
                }
            }
            6 if !m.cons.wincons.is_empty() => {
                let i = pick(b.target, m.cons.wincons.len());
                m.cons.wincons[i].glass = bad;
            }
            7 if !m.cons.wincons.is_empty() => {
                let i = pick(b.target, m.cons.wincons.len());
                m.cons.wincons[i].frame = bad;
            }
            8 if !m.spaces.is_empty() => {
                let i = pick(b.target, m.spaces.len());
                m.spaces[i].loads = Some(bad);
            }
            9 if !m.spaces.is_empty() => {
                let i = pick(b.target, m.spaces.len());
                m.spaces[i].thermostat = Some(bad);
            }
            10 if !m.loads.is_empty() => {
                let i = pick(b.target, m.loads.len());
                m.loads[i].people_schedule = Some(bad);
            }
            11 => {
                let cands: Vec<usize> = (0..m.schedules.year.len()).filter(|i| !m.schedules.year[*i].values.is_empty()).collect();
                if !cands.is_empty() {
                    let i = cands[pick(b.target, cands.len())];
                    m.schedules.year[i].values[0].0 = bad;
                }
            }
            12 => {
                let cands: Vec<usize> = (0..m.schedules.week.len()).filter(|i| !m.schedules.week[*i].values.is_empty()).collect();
                if !cands.is_empty() {
                    let i = cands[pick(b.target, cands.len())];
                    m.schedules.week[i].values[0].0 = bad;
                }
            }
            _ => {}
        }
    }
}

/// Referential closure of a model, computed independently of `bemodel::check`.
/// Returns the list of broken links as (kind, owner id, missing id).
pub fn broken_links(m: &Model) -> Vec<(&'static str, Uuid, Uuid)> {
    use std::collections::HashSet;
    let ids = |v: Vec<Uuid>| v.into_iter().collect::<HashSet<_>>();
    let spaces = ids(m.spaces.iter().map(|x| x.id).collect());
    let walls = ids(m.walls.iter().map(|x| x.id).collect());
    let wallcons = ids(m.cons.wallcons.iter().map(|x| x.id).collect());
    let wincons = ids(m.cons.wincons.iter().map(|x| x.id).collect());
    let mats = ids(m.cons.materials.iter().map(|x| x.id).collect());
    let glasses = ids(m.cons.glasses.iter().map(|x| x.id).collect());
    let frames = ids(m.cons.frames.iter().map(|x| x.id).collect());
    let loads = ids(m.loads.iter().map(|x| x.id).collect());
    let therms = ids(m.thermostats.iter().map(|x| x.id).collect());
    let years = ids(m.schedules.year.iter().map(|x| x.id).collect());
    let weeks = ids(m.schedules.week.iter().map(|x| x.id).collect());
    let days = ids(m.schedules.day.iter().map(|x| x.id).collect());
    let mut out = vec![];
    for w in &m.walls {
        if !spaces.contains(&w.space) {
            out.push(("wall.space", w.id, w.space));
        }
        if !wallcons.contains(&w.cons) {
            out.push(("wall.cons", w.id, w.cons));
        }
        if let Some(n) = w.next_to {
            if !spaces.contains(&n) {
                out.push(("wall.next_to", w.id, n));
            }
        }
    }
    for w in &m.windows {
        if !walls.contains(&w.wall) {
            out.push(("window.wall", w.id, w.wall));
        }
        if !wincons.contains(&w.cons) {
            out.push(("window.cons", w.id, w.cons));
        }
    }
    for c in &m.cons.wallcons {
        for l in &c.layers {
            if !mats.contains(&l.material) {
                out.push(("layer.material", c.id, l.material));
            }
        }
    }
    for c in &m.cons.wincons {
        if !glasses.contains(&c.glass) {
            out.push(("wincons.glass", c.id, c.glass));
        }
        if !frames.contains(&c.frame) {
            out.push(("wincons.frame", c.id, c.frame));
        }
    }
    for s in &m.spaces {
        if let Some(l) = s.loads {
            if !loads.contains(&l) {
                out.push(("space.loads", s.id, l));
            }
        }
        if let Some(l) = s.thermostat {
            if !therms.contains(&l) {
                out.push(("space.thermostat", s.id, l));
            }
        }
    }
    for l in &m.loads {
        for s in [l.people_schedule, l.equipment_schedule, l.lighting_schedule].into_iter().flatten() {
            if !years.contains(&s) {
                out.push(("loads.schedule", l.id, s));
            }
        }
    }
    for t in &m.thermostats {
        for s in [t.temp_max, t.temp_min].into_iter().flatten() {
            if !years.contains(&s) {
                out.push(("thermostat.schedule", t.id, s));
            }
        }
    }
    for y in &m.schedules.year {
        for (w, _) in &y.values {
            if !weeks.contains(w) {
                out.push(("year.week", y.id, *w));
            }
        }
    }
    for w in &m.schedules.week {
        for (d, _) in &w.values {
            if !days.contains(d) {
                out.push(("week.day", w.id, *d));
            }
        }
    }
    out
}
