//! Coverage-guided campaigns (libFuzzer through cargo-fuzz) as one more search engine behind the same
//! interface: the targets in /verif/fuzz are rebuilt from /repo's working tree, run as fixed-work
//! campaigns (-runs, -seed from VERIF_SEED, fresh corpus seeded from generated and shipped inputs) in
//! parallel processes, and every crash becomes a violation whose replay file carries the input.

use std::collections::BTreeMap;
use std::path::{Path, PathBuf};
use std::process::{Command, Stdio};
use std::time::Instant;

use serde_json::{json, Value};

use crate::engine::{fnv64, mix, target_dir, verif_dir, Ctx, ReplayDoc};

fn fuzz_target_dir() -> PathBuf {
    target_dir().join("fuzz")
}
fn fuzz_bin_dir() -> PathBuf {
    fuzz_target_dir().join("x86_64-unknown-linux-gnu").join("release")
}
fn fuzz_work_dir() -> PathBuf {
    target_dir().join("fuzz-work")
}

pub struct Campaign<'a> {
    /// evidence sub-check name, e.g. "fuzz:bdl_text"
    pub sub: &'a str,
    pub target: &'a str,
    /// prefix of the violation signature in front of the panic signature, e.g. "C19:" or "C13:bvh:"
    pub sig_prefix: &'a str,
    pub procs: usize,
    pub runs_per_proc: u64,
    pub max_len: usize,
    pub only_ascii: bool,
    /// starting corpus (name, bytes)
    pub seeds: Vec<(String, Vec<u8>)>,
    pub dict: Vec<String>,
    /// per-input timeout of libFuzzer, seconds
    pub timeout_s: u64,
    /// classes of the target's own counters that make a case non-trivial
    pub nontrivial_classes: &'a [&'a str],
}

/// Builds all fuzz targets from /repo's current tree. False (and an infra error) when the build fails.
pub fn build(ctx: &Ctx) -> bool {
    let t0 = Instant::now();
    let out = Command::new("cargo")
        .args(["+nightly", "fuzz", "build", "--fuzz-dir"])
        .arg(verif_dir().join("fuzz"))
        .args(["--sanitizer", "none", "--target-dir"])
        .arg(fuzz_target_dir())
        .env("VERIF_TARGET", target_dir())
        .current_dir(verif_dir().join("harness"))
        .env("CARGO_NET_OFFLINE", "true")
        .output();
    match out {
        Ok(o) if o.status.success() => {
            ctx.note(format!("fuzz targets built from /repo in {:.0} s (cargo +nightly fuzz build, no sanitizer: the workspace has no unsafe code outside the Windows GUI; debug assertions and overflow checks on)", t0.elapsed().as_secs_f64()));
            true
        }
        Ok(o) => {
            let err = String::from_utf8_lossy(&o.stderr);
            let tail: Vec<&str> = err.lines().rev().take(30).collect();
            ctx.infra_error(format!("fuzz build failed:\n{}", tail.into_iter().rev().collect::<Vec<_>>().join("\n")));
            false
        }
        Err(e) => {
            ctx.infra_error(format!("cannot run cargo +nightly fuzz build: {}", e));
            false
        }
    }
}

fn dict_line(s: &str) -> Option<String> {
    if s.is_empty() || s.len() > 60 {
        return None;
    }
    let mut o = String::from("\"");
    for &b in s.as_bytes() {
        match b {
            b'"' => o.push_str("\\\""),
            b'\\' => o.push_str("\\\\"),
            0x20..=0x7e => o.push(b as char),
            _ => o.push_str(&format!("\\x{:02x}", b)),
        }
    }
    o.push('"');
    Some(o)
}

struct ProcOut {
    status_ok: bool,
    stderr: String,
    stats: BTreeMap<String, u64>,
    corpus_units: usize,
    artifacts: Vec<PathBuf>,
}

fn hex(bytes: &[u8]) -> String {
    let mut s = String::with_capacity(bytes.len() * 2);
    for b in bytes {
        s.push_str(&format!("{:02x}", b));
    }
    s
}

fn unhex(s: &str) -> Vec<u8> {
    (0..s.len() / 2).filter_map(|i| u8::from_str_radix(&s[2 * i..2 * i + 2], 16).ok()).collect()
}

fn allow_env(ctx: &Ctx, sig_prefix: &str) -> String {
    // open known findings of this property whose signature is a panic signature behind the prefix
    ctx.open_known_signatures()
        .into_iter()
        .filter_map(|s| s.strip_prefix(sig_prefix).map(|r| r.to_string()))
        .filter(|s| s.starts_with("panic@"))
        .collect::<Vec<_>>()
        .join("\n")
}

/// Runs one input file through the target, alone. Returns (exit ok, stderr)
fn run_single(ctx: &Ctx, target: &str, sig_prefix: &str, input: &Path, timeout_s: u64, strict: bool) -> (bool, String) {
    let mut cmd = Command::new(fuzz_bin_dir().join(target));
    cmd.arg(format!("-timeout={}", timeout_s)).arg("-rss_limit_mb=3072").arg(input).stdout(Stdio::null()).stderr(Stdio::piped());
    cmd.env("VERIF_FUZZ_ALLOW", allow_env(ctx, sig_prefix));
    cmd.env_remove("VERIF_FUZZ_STATS");
    if strict {
        cmd.env("VERIF_STRICT", "1");
    } else {
        cmd.env_remove("VERIF_STRICT");
    }
    let work = fuzz_work_dir().join(target).join("single");
    let _ = std::fs::create_dir_all(&work);
    cmd.arg(format!("-artifact_prefix={}/", work.display()));
    match cmd.output() {
        Ok(o) => (o.status.success(), String::from_utf8_lossy(&o.stderr).to_string()),
        Err(e) => (false, format!("cannot start target: {}", e)),
    }
}

fn classify(stderr: &str) -> (String, String) {
    // (kind, detail): kind in panic / timeout / oom / died
    if let Some(l) = stderr.lines().find(|l| l.starts_with("FUZZ-PANIC signature=")) {
        let rest = &l["FUZZ-PANIC signature=".len()..];
        let (sig, msg) = match rest.find(" message=") {
            Some(i) => (&rest[..i], &rest[i + 9..]),
            None => (rest, ""),
        };
        return ("panic".into(), format!("{}\u{1}{}", sig, msg));
    }
    if stderr.contains("ERROR: libFuzzer: timeout") {
        return ("timeout".into(), String::new());
    }
    if stderr.contains("ERROR: libFuzzer: out-of-memory") {
        return ("oom".into(), String::new());
    }
    let last = stderr.lines().rev().find(|l| l.contains("ERROR") || l.contains("panicked") || l.contains("signal")).unwrap_or("").to_string();
    ("died".into(), last)
}

pub fn run(ctx: &Ctx, c: &Campaign) {
    if !ctx.wants(c.sub) {
        return;
    }
    let bin = fuzz_bin_dir().join(c.target);
    if !bin.exists() {
        ctx.infra_error(format!("fuzz target binary {} missing", bin.display()));
        return;
    }
    let work = fuzz_work_dir().join(c.target);
    let _ = std::fs::remove_dir_all(&work);
    let _ = std::fs::create_dir_all(&work);
    let dict_path = work.join("dict.txt");
    let dict_txt: Vec<String> = c.dict.iter().filter_map(|s| dict_line(s)).collect();
    let _ = std::fs::write(&dict_path, dict_txt.join("\n"));
    let allow = allow_env(ctx, c.sig_prefix);
    let outs: Vec<ProcOut> = std::thread::scope(|scope| {
        let hs: Vec<_> = (0..c.procs)
            .map(|i| {
                let work = work.clone();
                let bin = bin.clone();
                let dict_path = dict_path.clone();
                let allow = allow.clone();
                scope.spawn(move || {
                    let pdir = work.join(format!("p{}", i));
                    let corpus = pdir.join("corpus");
                    let arts = pdir.join("artifacts");
                    let _ = std::fs::create_dir_all(&corpus);
                    let _ = std::fs::create_dir_all(&arts);
                    for (k, (name, bytes)) in c.seeds.iter().enumerate() {
                        let _ = std::fs::write(corpus.join(format!("seed-{:03}-{}", k, name.replace('/', "_"))), bytes);
                    }
                    let stats = pdir.join("stats.json");
                    // libFuzzer: seed 0 means random
                    let seed = (mix(ctx.seed(), c.sub, i as u64) % 0x7fff_fffe) + 1;
                    let mut cmd = Command::new(&bin);
                    cmd.arg(format!("-runs={}", c.runs_per_proc))
                        .arg(format!("-seed={}", seed))
                        .arg(format!("-max_len={}", c.max_len))
                        .arg("-len_control=0")
                        .arg(format!("-timeout={}", c.timeout_s))
                        .arg("-rss_limit_mb=3072")
                        .arg("-print_final_stats=1")
                        .arg(format!("-artifact_prefix={}/", arts.display()));
                    if c.only_ascii {
                        cmd.arg("-only_ascii=1");
                    }
                    if !dict_txt_is_empty(&dict_path) {
                        cmd.arg(format!("-dict={}", dict_path.display()));
                    }
                    cmd.arg(&corpus);
                    cmd.env("VERIF_FUZZ_ALLOW", &allow).env("VERIF_FUZZ_STATS", &stats).env_remove("VERIF_STRICT");
                    cmd.stdout(Stdio::null()).stderr(Stdio::piped());
                    let o = cmd.output();
                    let (status_ok, stderr) = match o {
                        Ok(o) => (o.status.success(), String::from_utf8_lossy(&o.stderr).to_string()),
                        Err(e) => (false, format!("cannot start: {}", e)),
                    };
                    let st: BTreeMap<String, u64> = std::fs::read_to_string(&stats).ok().and_then(|t| serde_json::from_str(&t).ok()).unwrap_or_default();
                    let corpus_units = std::fs::read_dir(&corpus).map(|d| d.count()).unwrap_or(0);
                    let artifacts: Vec<PathBuf> = std::fs::read_dir(&arts).map(|d| d.flatten().map(|e| e.path()).collect()).unwrap_or_default();
                    ProcOut {
                        status_ok,
                        stderr,
                        stats: st,
                        corpus_units,
                        artifacts,
                    }
                })
            })
            .collect();
        hs.into_iter().map(|h| h.join().expect("fuzz runner thread")).collect()
    });
    // evidence
    let mut total: BTreeMap<String, u64> = BTreeMap::new();
    let mut new_units = 0usize;
    for o in &outs {
        for (k, v) in &o.stats {
            *total.entry(k.clone()).or_insert(0) += v;
        }
        new_units += o.corpus_units.saturating_sub(c.seeds.len());
    }
    ctx.scope(c.sub, false, |h| {
        h.evals(total.get("exec").copied().unwrap_or(0));
        for (k, v) in &total {
            h.class_n(k, *v);
        }
        h.class_n("inputs-with-new-coverage", new_units as u64);
        // non-trivial cases are counted by the target (it cannot hand over fingerprints): distinct by count
        let nt: u64 = c.nontrivial_classes.iter().map(|k| total.get(*k).copied().unwrap_or(0)).sum();
        h.nontrivial_n(nt);
        h.sample(|| json!({"campaign": c.target, "processes": c.procs, "runs_per_process": c.runs_per_proc, "seed_corpus": c.seeds.iter().map(|s| format!("{} ({} bytes)", s.0, s.1.len())).take(12).collect::<Vec<_>>(), "dictionary_entries": c.dict.len(), "target_counters": total}));
    });
    for (k, v) in &total {
        if let Some(psig) = k.strip_prefix("known:") {
            ctx.known_hits_add(&format!("{}{}", c.sig_prefix, psig), *v);
        }
    }
    // crashes
    for (i, o) in outs.iter().enumerate() {
        if o.status_ok && o.artifacts.is_empty() {
            continue;
        }
        let (kind, detail) = classify(&o.stderr);
        let art = o.artifacts.first().cloned();
        let bytes = art.as_ref().and_then(|p| std::fs::read(p).ok());
        match kind.as_str() {
            "panic" => {
                let (psig, msg) = detail.split_once('\u{1}').unwrap_or((&detail, ""));
                let sig = format!("{}{}", c.sig_prefix, psig);
                report(ctx, c, &sig, &format!("fuzz target {}: {} ({})", c.target, msg, psig), bytes.as_deref());
            }
            "timeout" | "oom" => {
                // confirm alone (the campaign shares the machine with 15 others)
                let confirmed = match &art {
                    Some(p) => {
                        let (ok, err) = run_single(ctx, c.target, c.sig_prefix, p, c.timeout_s * 3, false);
                        !ok && classify(&err).0 == kind
                    }
                    None => false,
                };
                if confirmed {
                    let sig = format!("{}{}:{}", c.sig_prefix, if kind == "timeout" { "hang" } else { "process-died:out-of-memory" }, c.target);
                    report(ctx, c, &sig, &format!("fuzz target {}: input reproduces {} alone with three times the time limit ({} s)", c.target, kind, c.timeout_s * 3), bytes.as_deref());
                } else {
                    ctx.note(format!("{} process {}: libFuzzer reported {} under load; the input finished alone within {} s — not counted", c.sub, i, kind, c.timeout_s * 3));
                    ctx.budget_exhausted();
                }
            }
            _ => {
                if bytes.is_some() {
                    let sig = format!("{}process-died:{}", c.sig_prefix, c.target);
                    report(ctx, c, &sig, &format!("fuzz target {} died: {}", c.target, detail), bytes.as_deref());
                } else {
                    let tail: Vec<&str> = o.stderr.lines().rev().take(8).collect();
                    ctx.infra_error(format!("{} process {} ended abnormally without an artifact: {}", c.sub, i, tail.into_iter().rev().collect::<Vec<_>>().join(" / ")));
                }
            }
        }
    }
    let _ = std::fs::remove_dir_all(&work);
}

fn dict_txt_is_empty(p: &Path) -> bool {
    std::fs::metadata(p).map(|m| m.len() == 0).unwrap_or(true)
}

fn report(ctx: &Ctx, c: &Campaign, sig: &str, what: &str, bytes: Option<&[u8]>) {
    let b = bytes.unwrap_or(&[]);
    // the raw input next to the JSON replay document, for direct use with the libFuzzer binary
    let dir = verif_dir().join("replays").join(&ctx.id);
    let _ = std::fs::create_dir_all(&dir);
    let raw = dir.join(format!("fuzz-{}-{:016x}.bin", c.target, fnv64(b)));
    let _ = std::fs::write(&raw, b);
    let case = json!({"fuzz_target": c.target, "sig_prefix": c.sig_prefix, "timeout_s": c.timeout_s, "input_hex": hex(b), "raw_input_file": raw.to_string_lossy()});
    ctx.report(c.sub, sig, what, &case);
}

/// Replays a saved fuzz violation: the input is run alone through the rebuilt target.
pub fn replay_one(ctx: &Ctx, doc: &ReplayDoc) {
    let case: &Value = &doc.case;
    let target = case["fuzz_target"].as_str().unwrap_or("").to_string();
    let prefix = case["sig_prefix"].as_str().unwrap_or("").to_string();
    let timeout_s = case["timeout_s"].as_u64().unwrap_or(60);
    let bytes = unhex(case["input_hex"].as_str().unwrap_or(""));
    if target.is_empty() {
        ctx.infra_error("replay file has no fuzz_target".into());
        return;
    }
    if !build(ctx) {
        return;
    }
    let dir = fuzz_work_dir().join(&target).join("replay");
    let _ = std::fs::create_dir_all(&dir);
    let input = dir.join(format!("{:016x}.bin", fnv64(&bytes)));
    let _ = std::fs::write(&input, &bytes);
    let (ok, err) = run_single(ctx, &target, &prefix, &input, timeout_s * 3, ctx.args.strict);
    ctx.scope(&doc.sub, false, |h| h.evals(1));
    if !ok {
        let (kind, detail) = classify(&err);
        let (sig, what) = match kind.as_str() {
            "panic" => {
                let (psig, msg) = detail.split_once('\u{1}').unwrap_or((&detail, ""));
                (format!("{}{}", prefix, psig), format!("fuzz target {}: {} ({})", target, msg, psig))
            }
            "timeout" => (format!("{}hang:{}", prefix, target), format!("fuzz target {}: no answer within {} s", target, timeout_s * 3)),
            "oom" => (format!("{}process-died:out-of-memory:{}", prefix, target), format!("fuzz target {}: out of memory", target)),
            _ => (format!("{}process-died:{}", prefix, target), format!("fuzz target {} died: {}", target, detail)),
        };
        ctx.report(&doc.sub, &sig, &what, case);
    }
    let _ = std::fs::remove_file(&input);
}

/// identifiers and quoted names of the given texts that occur at least twice, as dictionary entries
pub fn tokens_of(texts: &[String], max: usize) -> Vec<String> {
    let mut count: BTreeMap<String, u32> = BTreeMap::new();
    for t in texts {
        let mut cur = String::new();
        for ch in t.chars().chain(std::iter::once(' ')) {
            if ch.is_ascii_alphanumeric() || ch == '_' || ch == '-' {
                cur.push(ch);
            } else {
                if cur.len() >= 3 && cur.len() <= 32 && cur.chars().any(|c| c.is_ascii_alphabetic()) {
                    *count.entry(cur.clone()).or_insert(0) += 1;
                }
                cur.clear();
            }
        }
    }
    let mut v: Vec<(String, u32)> = count.into_iter().filter(|(_, n)| *n >= 2).collect();
    v.sort_by(|a, b| b.1.cmp(&a.1).then(a.0.cmp(&b.0)));
    v.into_iter().take(max).map(|(k, _)| k).collect()
}

/// `n` values of a strategy from a deterministic runner (for seed corpora)
pub fn sample_values<T: std::fmt::Debug>(strategy: &proptest::strategy::BoxedStrategy<T>, n: usize, seed: u64, salt: &str) -> Vec<T> {
    use proptest::strategy::{Strategy, ValueTree};
    use proptest::test_runner::{Config, RngSeed, TestRunner};
    let mut runner = TestRunner::new(Config {
        rng_seed: RngSeed::Fixed(mix(seed, salt, 0)),
        failure_persistence: None,
        ..Config::default()
    });
    (0..n).filter_map(|_| strategy.new_tree(&mut runner).ok().map(|t| t.current())).collect()
}

/// Starting corpus and dictionary of the model-JSON targets: generated closed and open models (small), one
/// of them written compactly, and the smallest shipped model
pub fn model_json_corpus(seed: u64, salt: &str) -> (Vec<(String, Vec<u8>)>, Vec<String>) {
    use crate::gen::model::{self, Params};
    let mut seeds: Vec<(String, Vec<u8>)> = vec![];
    for (k, open) in [false, true].into_iter().enumerate() {
        let plans = sample_values(&model::plan(Params { open, max_spaces: 2, ..Params::default() }), 12, seed, &format!("{}/{}", salt, k));
        for (i, pl) in plans.iter().enumerate() {
            let m = model::build(pl);
            if let Ok(j) = m.as_json() {
                seeds.push((format!("generated-{}-{}", if open { "open" } else { "closed" }, i), j.into_bytes()));
            }
            if i == 0 {
                if let Ok(j) = serde_json::to_vec(&m) {
                    seeds.push((format!("generated-compact-{}", k), j));
                }
            }
        }
    }
    let cubo = std::fs::read_to_string("/repo/bemodel/tests/data/cubo.json").unwrap_or_default();
    let dict = tokens_of(&[cubo.clone(), seeds.first().map(|s| String::from_utf8_lossy(&s.1).to_string()).unwrap_or_default()], 300);
    seeds.push(("cubo.json".into(), cubo.into_bytes()));
    (seeds, dict)
}
