//! Small helpers shared by generators and oracles.

use std::path::{Path, PathBuf};

/// Recursively lists files under `dir` with one of the given extensions (sorted).
pub fn files_with_ext(dir: &Path, exts: &[&str]) -> Vec<PathBuf> {
    let mut out = vec![];
    let mut stack = vec![dir.to_path_buf()];
    while let Some(d) = stack.pop() {
        let rd = match std::fs::read_dir(&d) {
            Ok(r) => r,
            Err(_) => continue,
        };
        for e in rd.flatten() {
            let p = e.path();
            if p.is_dir() {
                stack.push(p);
            } else if let Some(x) = p.extension().and_then(|x| x.to_str()) {
                if exts.iter().any(|e| e.eq_ignore_ascii_case(x)) {
                    out.push(p);
                }
            }
        }
    }
    out.sort();
    out
}

pub fn files_named(dir: &Path, name: &str) -> Vec<PathBuf> {
    let mut out = vec![];
    let mut stack = vec![dir.to_path_buf()];
    while let Some(d) = stack.pop() {
        let rd = match std::fs::read_dir(&d) {
            Ok(r) => r,
            Err(_) => continue,
        };
        for e in rd.flatten() {
            let p = e.path();
            if p.is_dir() {
                stack.push(p);
            } else if p.file_name().and_then(|x| x.to_str()) == Some(name) {
                out.push(p);
            }
        }
    }
    out.sort();
    out
}

/// Reads a file as Latin-1 (every byte one char), as the repository does for BDL files.
pub fn read_latin1(p: &Path) -> String {
    std::fs::read(p)
        .map(|b| b.iter().map(|&c| c as char).collect())
        .unwrap_or_default()
}

pub fn rel(a: f64, b: f64) -> f64 {
    (a - b).abs() / a.abs().max(b.abs()).max(1e-12)
}

/// |a-b| <= abs + relt*max(|a|,|b|)
pub fn close(a: f64, b: f64, abs: f64, relt: f64) -> bool {
    (a - b).abs() <= abs + relt * a.abs().max(b.abs())
}
