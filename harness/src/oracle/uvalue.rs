//! Independent f64 reference for opaque U-values (EN ISO 6946 / 13370 / 13789 as quoted in C06).
//! Every result is an interval that accounts for the two/three-decimal roundings of intermediate
//! quantities that the "to two decimals" contract allows.

use bemodel::{BoundaryType, MatProps, Model, SpaceType, Uuid, Wall};

use super::envelope::{poly_area, tilt_class, TiltC};

pub const RSE: f64 = 0.04;
pub const LAMBDA_GND: f64 = 2.0;
pub const LAMBDA_INS: f64 = 0.035;
pub const W_WALL: f64 = 0.3;
const PI: f64 = std::f64::consts::PI;
/// half a unit of the second decimal plus f32 slop
pub const R2: f64 = 0.0051;

#[derive(Clone, Copy, Debug)]
pub struct Iv {
    pub lo: f64,
    pub hi: f64,
}

impl Iv {
    pub fn point(v: f64) -> Iv {
        Iv { lo: v, hi: v }
    }
    pub fn widen(self, d: f64) -> Iv {
        Iv {
            lo: self.lo - d,
            hi: self.hi + d,
        }
    }
    pub fn contains(&self, v: f64) -> bool {
        v >= self.lo && v <= self.hi
    }
    pub fn of(vals: &[f64]) -> Iv {
        let mut lo = f64::INFINITY;
        let mut hi = f64::NEG_INFINITY;
        for v in vals {
            lo = lo.min(*v);
            hi = hi.max(*v);
        }
        Iv { lo, hi }
    }
}

pub fn rsi(t: TiltC) -> f64 {
    match t {
        TiltC::Top => 0.10,
        TiltC::Side => 0.13,
        TiltC::Bottom => 0.17,
    }
}

/// Thermal resistance of a layer stack; None when construction, a material or a conductivity is missing
pub fn resistance(m: &Model, cons: Uuid) -> Option<f64> {
    let c = m.cons.wallcons.iter().find(|c| c.id == cons)?;
    let mut r = 0.0;
    for l in &c.layers {
        let mat = m.cons.materials.iter().find(|x| x.id == l.material)?;
        match mat.properties {
            MatProps::Detailed { conductivity, .. } => {
                if conductivity > 0.0 {
                    r += l.e as f64 / conductivity as f64;
                } else {
                    return None;
                }
            }
            MatProps::Resistance { resistance, .. } => r += resistance as f64,
        }
    }
    Some(r)
}

pub fn area(w: &Wall) -> f64 {
    poly_area(&w.geometry.polygon)
}

pub fn perimeter(w: &Wall) -> f64 {
    let p = &w.geometry.polygon;
    let n = p.len();
    if n < 2 {
        return 0.0;
    }
    (0..n)
        .map(|i| {
            let a = p[i];
            let b = p[(i + 1) % n];
            (((a.x - b.x) as f64).powi(2) + ((a.y - b.y) as f64).powi(2)).sqrt()
        })
        .sum()
}

#[derive(Clone, Debug)]
pub enum Expect {
    /// no U-value must be reported
    None,
    /// U within the interval
    Value(Iv, &'static str),
    /// the statement does not define this case
    DontCare(&'static str),
}

fn u_air(r: f64, t: TiltC) -> f64 {
    1.0 / (r + rsi(t) + RSE)
}

/// walls that delimit a space (own walls and interior walls of neighbours that refer to it)
fn space_walls<'a>(m: &'a Model, sid: Uuid) -> impl Iterator<Item = &'a Wall> {
    m.walls.iter().filter(move |w| w.space == sid || w.next_to == Some(sid))
}

/// equivalent total thickness d_t of the ground slabs of a space (area weighted), None without slab
pub fn slab_d_t(m: &Model, sid: Uuid) -> Option<f64> {
    let slabs: Vec<&Wall> = space_walls(m, sid)
        .filter(|w| tilt_class(w.geometry.tilt as f64) == TiltC::Bottom && w.bounds == BoundaryType::GROUND)
        .collect();
    if slabs.is_empty() {
        return None;
    }
    let (mut e, mut a) = (0.0, 0.0);
    for s in slabs {
        let ar = area(s);
        let r = resistance(m, s.cons).unwrap_or(0.0);
        a += ar;
        e += ar * (W_WALL + LAMBDA_GND * (0.17 + r + RSE));
    }
    Some(e / a)
}

pub struct Ctx<'a> {
    pub m: &'a Model,
    /// per-space net height as reported (validated by C11)
    pub height_net: &'a dyn Fn(Uuid) -> f64,
}

/// Building ventilation rate 3.6 q / V over habitable spaces inside the envelope (0 when undefined)
pub fn global_vent(m: &Model, height_net: &dyn Fn(Uuid) -> f64) -> f64 {
    let mut v = 0.0;
    for s in &m.spaces {
        if s.inside_tenv && s.kind != SpaceType::UNINHABITED {
            let a: f64 = m
                .walls
                .iter()
                .filter(|w| w.space == s.id && tilt_class(w.geometry.tilt as f64) == TiltC::Bottom)
                .map(area)
                .sum();
            v += a * height_net(s.id) * s.multiplier as f64;
        }
    }
    let v = (v * 100.0).round() / 100.0;
    match m.meta.global_ventilation_l_s {
        Some(q) if v > 0.0 => 3.6 * q as f64 / v,
        _ => 0.0,
    }
}

/// Expected U of a wall. `depth` guards the recursion partition -> exterior elements.
pub fn expect_u(c: &Ctx, w: &Wall) -> Expect {
    let m = c.m;
    let t = tilt_class(w.geometry.tilt as f64);
    let cons_exists = m.cons.wallcons.iter().any(|x| x.id == w.cons);
    let r = resistance(m, w.cons);
    let space = m.spaces.iter().find(|s| s.id == w.space);
    match w.bounds {
        BoundaryType::EXTERIOR | BoundaryType::ADIABATIC => match r {
            Some(r) => Expect::Value(Iv::point(u_air(r, t)).widen(R2), "air"),
            None => Expect::None,
        },
        BoundaryType::GROUND => {
            if !cons_exists {
                return Expect::None;
            }
            let r = match r {
                Some(r) => r,
                None => return Expect::None,
            };
            let space = match space {
                Some(s) => s,
                None => return Expect::DontCare("ground element without space"),
            };
            let d_t = match slab_d_t(m, space.id) {
                Some(d) => d,
                None => return Expect::DontCare("buried element in a space without ground slab"),
            };
            let u_w = u_air(r, t);
            let z = (-(space.z as f64)).max(0.0);
            match t {
                TiltC::Top => Expect::Value(Iv::point(u_w).widen(R2), "ground/top"),
                TiltC::Bottom => {
                    // characteristic dimension from the exposed perimeter of the slab
                    let gnd_floors: Vec<&Wall> = space_walls(m, space.id)
                        .filter(|x| x.space == space.id && tilt_class(x.geometry.tilt as f64) == TiltC::Bottom && x.bounds == BoundaryType::GROUND)
                        .collect();
                    let all_floors = m.walls.iter().filter(|x| x.space == space.id && tilt_class(x.geometry.tilt as f64) == TiltC::Bottom).count();
                    if gnd_floors.len() != 1 || all_floors != 1 {
                        return Expect::DontCare("space with several floor elements");
                    }
                    let slab = gnd_floors[0];
                    let a = area(slab);
                    if a < 0.01 {
                        return Expect::DontCare("slab without area");
                    }
                    // exposed share of the side walls (all side walls of a prism have the same height, so the
                    // area ratio is the ratio of edge lengths)
                    let sides: Vec<&Wall> = space_walls(m, space.id).filter(|x| tilt_class(x.geometry.tilt as f64) == TiltC::Side).collect();
                    let (mut tot, mut ext) = (0.0, 0.0);
                    let mut has_interior = false;
                    for s in &sides {
                        let ar = area(s);
                        tot += ar;
                        match s.bounds {
                            BoundaryType::EXTERIOR | BoundaryType::GROUND => ext += ar,
                            BoundaryType::INTERIOR => {
                                has_interior = true;
                                let other = if s.space == space.id { s.next_to } else { Some(s.space) };
                                let other_kind = other.and_then(|o| m.spaces.iter().find(|x| x.id == o)).map(|x| x.kind);
                                if s.space != space.id {
                                    // a neighbour's wall given from the other side: the statement does not say how it counts
                                    return Expect::DontCare("slab of a space bounded by a neighbour's interior wall");
                                }
                                if space.kind == SpaceType::CONDITIONED && other_kind.map_or(false, |k| k != SpaceType::CONDITIONED) {
                                    ext += ar;
                                }
                            }
                            BoundaryType::ADIABATIC => {}
                        }
                    }
                    if space.kind != SpaceType::CONDITIONED && has_interior {
                        return Expect::DontCare("slab of a non-conditioned space with interior walls");
                    }
                    let p_exact = if tot < 0.001 { 0.0 } else { perimeter(slab) * ext / tot };
                    let d1 = m.meta.rn_perim_insulation as f64 * (LAMBDA_GND - LAMBDA_INS);
                    let dd = m.meta.d_perim_insulation as f64;
                    let mut vals = vec![];
                    for dp in [-R2, 0.0, R2] {
                        let p = (p_exact + dp).max(0.01);
                        for db in [-R2, 0.0, R2] {
                            let b = a / (0.5 * p) + db;
                            if b <= 0.0 {
                                continue;
                            }
                            let psi0 = -LAMBDA_GND / PI * ((1.0 + dd / d_t).ln() - (1.0 + dd / (d_t + d1)).ln());
                            for dpsi in [-0.00051, 0.0, 0.00051] {
                                let psi = psi0 + dpsi;
                                let bl = d_t + 0.5 * z;
                                // both branches near the switch point (the rounding of B' may move it across)
                                let f1 = (2.0 * LAMBDA_GND / (PI * b + bl)) * (1.0 + PI * b / bl).ln();
                                let f2 = LAMBDA_GND / (0.457 * b + bl);
                                let u_bf = if (bl - b).abs() < 0.02 {
                                    vec![f1, f2]
                                } else if bl < b {
                                    vec![f1]
                                } else {
                                    vec![f2]
                                };
                                for u in u_bf {
                                    vals.push(u + 2.0 * psi / b);
                                }
                            }
                        }
                    }
                    Expect::Value(Iv::of(&vals).widen(R2), "ground/slab")
                }
                TiltC::Side => {
                    if z < 0.01 {
                        return Expect::Value(Iv::point(u_w).widen(R2), "ground/wall-not-buried");
                    }
                    let hn = (c.height_net)(space.id);
                    if hn <= 0.0 {
                        return Expect::DontCare("space without net height");
                    }
                    let mut vals = vec![];
                    for duw in [-R2, 0.0, R2] {
                        let uw = u_w + duw;
                        if uw <= 0.0 {
                            continue;
                        }
                        let d_w = LAMBDA_GND / uw;
                        let dt = d_w.min(d_t);
                        let u_bw0 = (2.0 * LAMBDA_GND / (PI * z)) * (1.0 + 0.5 * dt / (dt + z)) * (z / d_w + 1.0).ln();
                        for dbw in [-R2, 0.0, R2] {
                            let u_bw = u_bw0 + dbw;
                            let h = (hn - z).max(0.0);
                            let u = if h <= 0.0 { u_bw } else { (z * u_bw + h * uw) / hn };
                            vals.push(u);
                        }
                    }
                    Expect::Value(Iv::of(&vals).widen(R2), "ground/basement-wall")
                }
            }
        }
        BoundaryType::INTERIOR => {
            let space = match space {
                Some(s) => s,
                None => return Expect::DontCare("interior element without space"),
            };
            if !cons_exists {
                return Expect::None;
            }
            let next = match w.next_to {
                None => return Expect::DontCare("interior element without neighbour"),
                Some(n) => match m.spaces.iter().find(|s| s.id == n) {
                    Some(s) => s,
                    None => return Expect::DontCare("interior element with dangling neighbour"),
                },
            };
            let this_cond = space.kind == SpaceType::CONDITIONED;
            let next_cond = next.kind == SpaceType::CONDITIONED;
            if this_cond == next_cond {
                return Expect::DontCare("partition between equally conditioned spaces");
            }
            let r = match r {
                Some(r) => r,
                None => return Expect::None,
            };
            // heat flows from the conditioned to the unconditioned space
            let rsi_f = match (this_cond, t) {
                (_, TiltC::Side) => 0.13,
                (true, TiltC::Bottom) | (false, TiltC::Top) => 0.17,
                (true, TiltC::Top) | (false, TiltC::Bottom) => 0.10,
            };
            let r_f = r + 2.0 * rsi_f;
            let unc = if this_cond { next } else { space };
            // exterior and ground elements of the unconditioned space, with their own expected U
            let (mut ua_lo, mut ua_hi) = (0.0f64, 0.0f64);
            for e in space_walls(m, unc.id).filter(|e| e.bounds == BoundaryType::EXTERIOR || e.bounds == BoundaryType::GROUND) {
                let iv = match expect_u(c, e) {
                    Expect::Value(iv, _) => iv,
                    Expect::None => continue,
                    Expect::DontCare(_) => return Expect::DontCare("partition next to a space with an undefined exterior element"),
                };
                let wins: Vec<_> = m.windows.iter().filter(|x| x.wall == e.id).collect();
                let win_a: f64 = wins.iter().map(|x| x.geometry.width as f64 * x.geometry.height as f64).sum();
                let a_net = area(e) - win_a;
                // interval product (the slab formula can give a negative U with strong perimeter insulation; the library
                // adds it as it is)
                let prods = [(a_net - 0.0101) * iv.lo, (a_net - 0.0101) * iv.hi, (a_net + 0.0101) * iv.lo, (a_net + 0.0101) * iv.hi];
                ua_lo += prods.iter().cloned().fold(f64::INFINITY, f64::min);
                ua_hi += prods.iter().cloned().fold(f64::NEG_INFINITY, f64::max);
                for x in wins {
                    if let Some(wc) = m.cons.wincons.iter().find(|k| k.id == x.cons) {
                        let g = m.cons.glasses.iter().find(|g| g.id == wc.glass);
                        let f = m.cons.frames.iter().find(|f| f.id == wc.frame);
                        if let (Some(g), Some(f)) = (g, f) {
                            let u = (1.0 + wc.delta_u as f64 / 100.0) * (wc.f_f as f64 * f.u_value as f64 + (1.0 - wc.f_f as f64) * g.u_value as f64);
                            let a = x.geometry.width as f64 * x.geometry.height as f64;
                            ua_lo += a * (u - R2);
                            ua_hi += a * (u + R2);
                        }
                    }
                }
            }
            let a_unc: f64 = m
                .walls
                .iter()
                .filter(|x| x.space == unc.id && tilt_class(x.geometry.tilt as f64) == TiltC::Bottom)
                .map(area)
                .sum();
            let vol = a_unc * (c.height_net)(unc.id);
            let n = unc.n_v.map(|v| v as f64).unwrap_or_else(|| global_vent(m, c.height_net));
            let q = vol * n;
            let a_i = area(w);
            // the library works with areas and heights rounded to two decimals: sizes given in millimetres move the
            // partition area, the floor area and the net height of the unconditioned space by up to half a unit each
            let hn = (c.height_net)(unc.id);
            // (a building-wide rate is itself flow / volume of all habitable spaces, each with the same roundings)
            let eps_n = if unc.n_v.is_some() { 0.0 } else { 0.004 };
            let eps_q = (0.0051 / a_unc.max(0.01) + 0.0051 / hn.abs().max(0.01) + eps_n).min(0.05);
            let u_of = |ua: f64, a_i: f64, q: f64| {
                let h = ua + 0.33 * q;
                if h <= 0.0 {
                    0.0
                } else {
                    1.0 / (r_f + a_i.max(0.0) / h)
                }
            };
            if std::env::var("VERIF_DEBUG").is_ok() {
                eprintln!("DEBUG partition: r_f={} a_i={} ua_lo={} ua_hi={} q={} n={} vol={} a_unc={} hn={}", r_f, a_i, ua_lo, ua_hi, q, n, vol, a_unc, hn);
                for e in space_walls(m, unc.id).filter(|e| e.bounds == BoundaryType::EXTERIOR || e.bounds == BoundaryType::GROUND) {
                    eprintln!("DEBUG   elem {:?} tilt {} area {} lib_u {:?} expect {:?}", e.bounds, e.geometry.tilt, area(e), e.u_value(m), match expect_u(c, e) { Expect::Value(iv, b) => format!("[{}, {}] {}", iv.lo, iv.hi, b), Expect::None => "none".into(), Expect::DontCare(r) => format!("dontcare {}", r) });
                }
            }
            let mut vals = vec![];
            for ai in [a_i - 0.0051, a_i + 0.0051] {
                for qq in [q * (1.0 - eps_q), q * (1.0 + eps_q)] {
                    vals.extend([u_of(ua_lo - 5e-4 * ua_lo.abs(), ai, qq), u_of(ua_hi + 5e-4 * ua_hi.abs(), ai, qq)]);
                }
            }
            Expect::Value(Iv::of(&vals).widen(R2 + 2e-4), "partition/cond-uncond")
        }
    }
}
