pub mod envelope;
pub mod ray;
