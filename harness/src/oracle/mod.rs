pub mod ray;
