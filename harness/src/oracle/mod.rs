pub mod envelope;
pub mod ray;
pub mod uvalue;
