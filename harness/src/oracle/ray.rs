//! Exact (f64) reference for ray / posed planar polygon intersection.
//! Written from first principles: P_global = T + Rz(azimuth)·Rx(tilt)·(x, y, 0).

use crate::gen::geom::{P2, P3, PosedPoly, RayD};

pub type V3 = [f64; 3];

pub fn v3(p: &P3) -> V3 {
    [p.x as f64, p.y as f64, p.z as f64]
}
pub fn add(a: V3, b: V3) -> V3 {
    [a[0] + b[0], a[1] + b[1], a[2] + b[2]]
}
pub fn sub(a: V3, b: V3) -> V3 {
    [a[0] - b[0], a[1] - b[1], a[2] - b[2]]
}
pub fn scale(a: V3, s: f64) -> V3 {
    [a[0] * s, a[1] * s, a[2] * s]
}
pub fn dot(a: V3, b: V3) -> f64 {
    a[0] * b[0] + a[1] * b[1] + a[2] * b[2]
}
pub fn cross(a: V3, b: V3) -> V3 {
    [
        a[1] * b[2] - a[2] * b[1],
        a[2] * b[0] - a[0] * b[2],
        a[0] * b[1] - a[1] * b[0],
    ]
}
pub fn norm(a: V3) -> f64 {
    dot(a, a).sqrt()
}
pub fn unit(a: V3) -> V3 {
    let n = norm(a);
    if n == 0.0 {
        a
    } else {
        scale(a, 1.0 / n)
    }
}

/// Rx(t)·v, right-handed, t in degrees
pub fn rot_x(v: V3, deg: f64) -> V3 {
    let (s, c) = deg.to_radians().sin_cos();
    [v[0], v[1] * c - v[2] * s, v[1] * s + v[2] * c]
}
/// Rz(a)·v, right-handed, a in degrees
pub fn rot_z(v: V3, deg: f64) -> V3 {
    let (s, c) = deg.to_radians().sin_cos();
    [v[0] * c - v[1] * s, v[0] * s + v[1] * c, v[2]]
}

/// local (x, y, z) of a posed element to global
pub fn to_global(tilt: f64, azimuth: f64, pos: V3, local: V3) -> V3 {
    add(pos, rot_z(rot_x(local, tilt), azimuth))
}
/// global to local
pub fn to_local(tilt: f64, azimuth: f64, pos: V3, global: V3) -> V3 {
    rot_x(rot_z(sub(global, pos), -azimuth), -tilt)
}
pub fn dir_to_local(tilt: f64, azimuth: f64, d: V3) -> V3 {
    rot_x(rot_z(d, -azimuth), -tilt)
}

pub fn global_corners(p: &PosedPoly) -> Vec<V3> {
    p.polygon
        .iter()
        .map(|q| {
            to_global(
                p.tilt as f64,
                p.azimuth as f64,
                v3(&p.position),
                [q.x as f64, q.y as f64, 0.0],
            )
        })
        .collect()
}

/// Even-odd test and distance to the outline
pub fn point_in_polygon(poly: &[P2], x: f64, y: f64) -> (bool, f64) {
    let n = poly.len();
    let mut inside = false;
    let mut dist = f64::INFINITY;
    for i in 0..n {
        let (ax, ay) = (poly[i].x as f64, poly[i].y as f64);
        let (bx, by) = (poly[(i + 1) % n].x as f64, poly[(i + 1) % n].y as f64);
        // crossing
        if (ay > y) != (by > y) {
            let xi = ax + (y - ay) * (bx - ax) / (by - ay);
            if xi > x {
                inside = !inside;
            }
        }
        // distance to segment
        let (dx, dy) = (bx - ax, by - ay);
        let l2 = dx * dx + dy * dy;
        let t = if l2 == 0.0 {
            0.0
        } else {
            (((x - ax) * dx + (y - ay) * dy) / l2).clamp(0.0, 1.0)
        };
        let (px, py) = (ax + t * dx, ay + t * dy);
        let d = ((x - px).powi(2) + (y - py).powi(2)).sqrt();
        if d < dist {
            dist = d;
        }
    }
    (inside, dist)
}

#[derive(Debug, Clone, Copy, PartialEq)]
pub enum Hit {
    /// robust hit with parameter t (for a unit direction)
    Yes(f64),
    /// robust miss
    No,
    /// inside the don't-care band (near outline, near parallel, near the origin)
    Undecided,
}

/// Exact ray/polygon answer with the don't-care band of DESIGN C13(b).
/// `band` is the minimum outline distance (m) for a decided answer.
pub fn ray_hits(p: &PosedPoly, ray: &RayD, band: f64) -> Hit {
    if p.polygon.len() < 3 {
        return Hit::Undecided;
    }
    let d = unit(v3(&ray.d));
    let o = v3(&ray.o);
    let (tilt, az, pos) = (p.tilt as f64, p.azimuth as f64, v3(&p.position));
    let lo = to_local(tilt, az, pos, o);
    let ld = dir_to_local(tilt, az, d);
    if ld[2].abs() < 1e-4 {
        // near-parallel: decided miss only when far from the plane on both... keep it simple
        return Hit::Undecided;
    }
    let t = -lo[2] / ld[2];
    // which side of the plane the origin lies on is only decided when its distance exceeds what f32 can resolve
    // there: the library maps the ray into the polygon's frame with an inverted 4x4 f32 matrix, whose error grows
    // with the distance from the global origin (observed: ~3e-4 m at 50 m)
    let far = o.iter().chain(pos.iter()).fold(0.0f64, |a, b| a.max(b.abs()));
    if t.abs() * ld[2].abs() < 1e-4 + 4e-5 * far {
        return Hit::Undecided;
    }
    let x = lo[0] + t * ld[0];
    let y = lo[1] + t * ld[1];
    let (inside, dist) = point_in_polygon(&p.polygon, x, y);
    let b = band.max(1e-5 / ld[2].abs());
    if t < 0.0 {
        // behind the origin: miss regardless of the polygon
        return Hit::No;
    }
    if dist < b {
        return Hit::Undecided;
    }
    if inside {
        Hit::Yes(t)
    } else {
        Hit::No
    }
}

/// signed area (shoelace), f64
pub fn shoelace(poly: &[P2]) -> f64 {
    let n = poly.len();
    let mut a = 0.0;
    for i in 0..n {
        let p = &poly[i];
        let q = &poly[(i + 1) % n];
        a += p.x as f64 * q.y as f64 - p.y as f64 * q.x as f64;
    }
    0.5 * a
}
