//! Independent (f64) reference for envelope membership, areas, volumes, K, n50 and q_sol;jul,
//! written from the statements of C08-C11 (not from the code's control flow).

use std::collections::BTreeMap;

use bemodel::{BoundaryType, Model, SpaceType, Uuid};

#[derive(Clone, Copy, Debug, PartialEq, Eq, PartialOrd, Ord)]
pub enum TiltC {
    Top,
    Side,
    Bottom,
}

/// floor / wall / roof class of a tilt angle, by the documented thresholds on the angle mod 360
pub fn tilt_class(tilt: f64) -> TiltC {
    let t = tilt.rem_euclid(360.0);
    if t <= 60.0 {
        TiltC::Top
    } else if t < 120.0 {
        TiltC::Side
    } else if t < 240.0 {
        TiltC::Bottom
    } else if t < 300.0 {
        TiltC::Side
    } else {
        TiltC::Top
    }
}

/// compass class of an azimuth (S=0, E=+90), by the documented sectors on the angle mod 360
pub fn orient_class(az: f64) -> &'static str {
    let a = az.rem_euclid(360.0);
    if a < 18.0 {
        "S"
    } else if a < 69.0 {
        "SE"
    } else if a < 120.0 {
        "E"
    } else if a < 157.5 {
        "NE"
    } else if a < 202.5 {
        "N"
    } else if a < 240.0 {
        "NW"
    } else if a < 291.0 {
        "W"
    } else if a < 342.0 {
        "SW"
    } else {
        "S"
    }
}

pub fn poly_area(p: &[bemodel::Point2]) -> f64 {
    let n = p.len();
    if n < 2 {
        return 0.0;
    }
    let mut a = 0.0;
    for i in 0..n {
        let q = p[(i + 1) % n];
        a += p[i].x as f64 * q.y as f64 - p[i].y as f64 * q.x as f64;
    }
    (0.5 * a).abs()
}

pub fn round2(v: f64) -> f64 {
    (v * 100.0).round() / 100.0
}

#[derive(Clone, Debug)]
pub struct WallInfo {
    pub id: Uuid,
    pub bounds: BoundaryType,
    pub tilt: TiltC,
    /// orientation class: compass for vertical elements, "HZ" otherwise
    pub orient: &'static str,
    pub area_gross: f64,
    /// gross minus the windows of this wall (not yet rounded)
    pub area_net_raw: f64,
    pub mult: f64,
    pub is_tenv: bool,
    pub space_inside: Option<bool>,
}

#[derive(Clone, Debug)]
pub struct SpaceInfo {
    pub id: Uuid,
    pub area: f64,
    pub height: f64,
    /// admissible net heights (one per ceiling candidate; the gross height when there is none)
    pub height_net_candidates: Vec<f64>,
    pub mult: f64,
    pub inside: bool,
    pub habitable: bool,
}

pub struct Env {
    pub walls: BTreeMap<Uuid, WallInfo>,
    pub spaces: BTreeMap<Uuid, SpaceInfo>,
}

pub fn wallcons_thickness(m: &Model, cons: Uuid) -> Option<f64> {
    m.cons
        .wallcons
        .iter()
        .find(|c| c.id == cons)
        .map(|c| ((c.layers.iter().map(|l| l.e as f64).sum::<f64>()) * 1000.0).round() / 1000.0)
}

pub fn envelope(m: &Model) -> Env {
    let space_of = |id: Uuid| m.spaces.iter().find(|s| s.id == id);
    let mut spaces = BTreeMap::new();
    for s in &m.spaces {
        let area: f64 = m
            .walls
            .iter()
            .filter(|w| w.space == s.id && tilt_class(w.geometry.tilt as f64) == TiltC::Bottom)
            .map(|w| poly_area(&w.geometry.polygon))
            .sum();
        let mut cands = vec![];
        for w in &m.walls {
            let is_cand = match tilt_class(w.geometry.tilt as f64) {
                TiltC::Top => w.space == s.id,
                TiltC::Bottom => w.next_to == Some(s.id),
                TiltC::Side => false,
            };
            if is_cand {
                let th = wallcons_thickness(m, w.cons).unwrap_or(0.0);
                cands.push(s.height as f64 - th);
            }
        }
        if cands.is_empty() {
            cands.push(s.height as f64);
        }
        spaces.insert(
            s.id,
            SpaceInfo {
                id: s.id,
                area,
                height: s.height as f64,
                height_net_candidates: cands,
                mult: s.multiplier as f64,
                inside: s.inside_tenv,
                habitable: s.kind != SpaceType::UNINHABITED,
            },
        );
    }
    let mut walls = BTreeMap::new();
    for w in &m.walls {
        let own = space_of(w.space);
        let own_inside = own.map(|s| s.inside_tenv);
        let next_inside = w.next_to.and_then(space_of).map(|s| s.inside_tenv);
        // envelope rule (C11): bounds an inside space towards outside air, ground or an adiabatic
        // boundary, or separates an inside space from an outside one
        let is_tenv = match w.bounds {
            BoundaryType::EXTERIOR | BoundaryType::GROUND | BoundaryType::ADIABATIC => own_inside == Some(true),
            BoundaryType::INTERIOR => own_inside.unwrap_or(false) != next_inside.unwrap_or(false),
        };
        let area_gross = poly_area(&w.geometry.polygon);
        let win_area: f64 = m
            .windows
            .iter()
            .filter(|x| x.wall == w.id)
            .map(|x| x.geometry.width as f64 * x.geometry.height as f64)
            .sum();
        let tilt = tilt_class(w.geometry.tilt as f64);
        walls.insert(
            w.id,
            WallInfo {
                id: w.id,
                bounds: w.bounds,
                tilt,
                orient: if tilt == TiltC::Side { orient_class(w.geometry.azimuth as f64) } else { "HZ" },
                area_gross,
                area_net_raw: area_gross - win_area,
                mult: own.map_or(1.0, |s| s.multiplier as f64),
                is_tenv,
                space_inside: own_inside,
            },
        );
    }
    Env { walls, spaces }
}

pub fn orientation_name(o: bemodel::Orientation) -> &'static str {
    use bemodel::Orientation::*;
    match o {
        N => "N",
        NE => "NE",
        E => "E",
        SE => "SE",
        S => "S",
        SW => "SW",
        W => "W",
        NW => "NW",
        HZ => "HZ",
    }
}

pub fn tilt_of(t: bemodel::Tilt) -> TiltC {
    match t {
        bemodel::Tilt::TOP => TiltC::Top,
        bemodel::Tilt::SIDE => TiltC::Side,
        bemodel::Tilt::BOTTOM => TiltC::Bottom,
    }
}
