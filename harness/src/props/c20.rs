//! C20 — solar geometry, radiation identities and embedded climate tables.

use proptest::prelude::*;
use serde::{Deserialize, Serialize};
use serde_json::json;

use bemodel::climatedata::{ClimateZone, CLIMATEMETADATA, JULYRADDATA, MONTHLYRADDATA};
use bemodel::energy::ray_dir_to_sun;
use bemodel::WallGeom;
use climate::solar;
use climate::{radiation_for_surface, Location, SolarRadiation};

use crate::engine::{catch, fp, Args, CaseH, Ctx, ReplayDoc, Tier, Verdict};
use crate::gen::geom::dec2;
use crate::gen::model::ZONES;
use crate::oracle::envelope::orientation_name;
use crate::{vensure, vfail};

const MONTH_LEN: [u32; 12] = [31, 28, 31, 30, 31, 30, 31, 31, 30, 31, 30, 31];

// ------------------------------------------------------------------ calendar

fn run_calendar(ctx: &Ctx) {
    let mut dates = vec![];
    for m in 1..=12u32 {
        for d in 1..=MONTH_LEN[(m - 1) as usize] {
            dates.push((m, d));
        }
    }
    ctx.run_enum("calendar", &dates, true, |h, (m, d)| {
        let expect: u32 = MONTH_LEN[..(*m - 1) as usize].iter().sum::<u32>() + d;
        let got = match catch(|| climate::nday_from_md(*m, *d)) {
            Ok(v) => v,
            Err(p) => {
                return Verdict::fail(
                    if *d == 31 { "C20:nday:panic-on-31st".to_string() } else { format!("C20:nday:{}", p.signature()) },
                    format!("nday_from_md({}, {}) panics: {}", m, d, p.msg),
                )
            }
        };
        vensure!(got == expect, "C20:nday:wrong", "nday_from_md({}, {}) = {}, calendar says {}", m, d, got, expect);
        let ymd = match catch(|| climate::nday_from_ymd(2001, *m, *d)) {
            Ok(v) => v,
            Err(p) => return Verdict::from_panic("C20:nday_from_ymd", &p),
        };
        vensure!(ymd == expect, "C20:nday_ymd:wrong", "nday_from_ymd(2001, {}, {}) = {}, calendar says {}", m, d, ymd, expect);
        let s = match catch(|| climate::nday_from_str(&format!("2001-{}-{}", m, d))) {
            Ok(v) => v,
            Err(p) => return Verdict::from_panic("C20:nday_from_str", &p),
        };
        vensure!(s == expect, "C20:nday_str:wrong", "nday_from_str(2001-{}-{}) = {}, calendar says {}", m, d, s, expect);
        h.nontrivial(fp(&(m, d)));
        if *d == 31 {
            h.class("day-31");
        }
        h.sample(|| json!({"month": m, "day": d, "nday": got}));
        Verdict::Pass
    });
}

// ------------------------------------------------------------------ sun position / incidence angle

/// sun unit vector (east, north, up) from spherical astronomy; hour angle positive before noon
fn sun_vector(lat: f64, decl: f64, ha: f64) -> [f64; 3] {
    let (sl, cl) = lat.to_radians().sin_cos();
    let (sd, cd) = decl.to_radians().sin_cos();
    let (sh, ch) = ha.to_radians().sin_cos();
    [cd * sh, cl * sd - sl * cd * ch, sl * sd + cl * cd * ch]
}

/// outward normal (east, north, up) of a surface with tilt beta and azimuth gamma (S=0, E=+90):
/// n = Rz(gamma)·Rx(beta)·z
fn surface_normal(tilt: f64, az: f64) -> [f64; 3] {
    let (sb, cb) = tilt.to_radians().sin_cos();
    let (sg, cg) = az.to_radians().sin_cos();
    [sg * sb, -cg * sb, cb]
}

fn dot(a: [f64; 3], b: [f64; 3]) -> f64 {
    a[0] * b[0] + a[1] * b[1] + a[2] * b[2]
}

#[derive(Clone, Debug, Serialize, Deserialize)]
pub struct SunCase {
    pub lat: f32,
    pub decl: f32,
    pub ha: f32,
    pub tilt: f32,
    pub az: f32,
}

fn check_sun(h: &CaseH, c: &SunCase) -> Verdict {
    let s = sun_vector(c.lat as f64, c.decl as f64, c.ha as f64);
    let alt = s[2].asin().to_degrees();
    let loc = Location {
        latitude: c.lat,
        longitude: 0.0,
        tz: 0,
    };
    let sp = match catch(|| climate::sun_position(c.decl, c.ha, loc)) {
        Ok(v) => v,
        Err(p) => return Verdict::from_panic("C20:sun_position", &p),
    };
    if alt >= 0.5 {
        h.class("sun-up");
        // (an f32 arc sine cannot resolve better than about 0.03 degrees next to 90 degrees)
        vensure!((sp.altitude as f64 - alt).abs() <= if alt > 85.0 { 0.05 } else { 0.02 }, "C20:sunpos:altitude", "altitude {} (lat {}, decl {}, hour angle {}), spherical astronomy {:.4}", sp.altitude, c.lat, c.decl, c.ha, alt);
        // compare as directions
        let (a, z) = ((sp.altitude as f64).to_radians(), (sp.azimuth as f64).to_radians());
        let lib = [a.cos() * z.sin(), -a.cos() * z.cos(), a.sin()];
        let ang = dot(lib, s).clamp(-1.0, 1.0).acos().to_degrees();
        let az_exact = s[0].atan2(-s[1]).to_degrees();
        vensure!(ang <= 0.05, "C20:sunpos:direction-mismatch", "sun direction for lat {} decl {} hour angle {}: library altitude {} azimuth {}, spherical astronomy altitude {:.3} azimuth {:.3} ({:.3} degrees apart)", c.lat, c.decl, c.ha, sp.altitude, sp.azimuth, alt, az_exact, ang);
        if c.ha.abs() >= 5.0 {
            h.nontrivial(fp(&(c.lat.to_bits(), c.decl.to_bits(), c.ha.to_bits())));
        }
        // ray_dir_to_sun uses the same convention
        let r = ray_dir_to_sun(sp.azimuth, sp.altitude);
        let rv = [r.x as f64, r.y as f64, r.z as f64];
        vensure!(dot(rv, s) >= 1.0 - 1e-5, "C20:ray_dir_to_sun", "ray_dir_to_sun({}, {}) = {:?} does not point to the sun {:?}", sp.azimuth, sp.altitude, rv, s);
    } else if alt < -0.5 {
        h.class("sun-down");
        vensure!(sp.altitude == 0.0, "C20:sunpos:altitude-below-horizon", "sun below the horizon ({:.3}) but altitude {}", alt, sp.altitude);
    }
    // incidence angle on the surface
    let n = surface_normal(c.tilt as f64, c.az as f64);
    let inc = dot(n, s).clamp(-1.0, 1.0).acos().to_degrees();
    let lib_inc = solar::angle_sol_surf(c.decl, c.ha, c.lat, c.tilt, c.az) as f64;
    // acos is ill-conditioned near 0 and 180 degrees: compare cosines there
    let cos_ok = ((lib_inc.to_radians().cos()) - dot(n, s)).abs() <= 2e-4;
    vensure!((lib_inc - inc).abs() <= 0.05 || cos_ok, "C20:incidence-angle", "incidence angle on tilt {} azimuth {} (lat {} decl {} hour angle {}): library {}, angle between normal and sun {:.4}", c.tilt, c.az, c.lat, c.decl, c.ha, lib_inc, inc);
    // the model's WallGeom normal uses the same convention
    // (the HasSurface trait is not exported; the pose rotation applied to +z is the same computation)
    let wg = WallGeom {
        tilt: c.tilt,
        azimuth: c.az,
        position: Some(nalgebra::point![0.0, 0.0, 0.0]),
        polygon: vec![nalgebra::point![0.0, 0.0], nalgebra::point![1.0, 0.0], nalgebra::point![1.0, 1.0], nalgebra::point![0.0, 1.0]],
    };
    let wn = match wg.to_global_coords_matrix() {
        Some(m) => m * nalgebra::vector![0.0f32, 0.0, 1.0],
        None => vfail!("C20:wallgeom-normal", "positioned WallGeom without transform"),
    };
    vensure!(
        (wn.x as f64 - n[0]).abs() < 1e-4 && (wn.y as f64 - n[1]).abs() < 1e-4 && (wn.z as f64 - n[2]).abs() < 1e-4,
        "C20:wallgeom-normal",
        "WallGeom(tilt {}, azimuth {}) maps +z to {:?}, Rz(az)Rx(tilt)z = {:?}",
        c.tilt,
        c.az,
        wn,
        n
    );
    if alt >= 0.5 {
        let r = ray_dir_to_sun(sp.azimuth, sp.altitude);
        let d = (r.dot(&wn)) as f64;
        vensure!((d - lib_inc.to_radians().cos()).abs() <= 2e-3, "C20:conventions-disagree", "ray_dir_to_sun . WallGeom.normal = {:.5} but cos(angle_sol_surf) = {:.5} (tilt {} azimuth {})", d, lib_inc.to_radians().cos(), c.tilt, c.az);
    }
    h.sample(|| json!(c));
    Verdict::Pass
}

fn sun_grid(step: f32) -> Vec<SunCase> {
    let mut v = vec![];
    let mut lat = -66.0f32;
    let mut k = 0u32;
    while lat <= 66.0 {
        let mut decl = -23.45f32;
        while decl <= 23.45 {
            let mut ha = -179.5f32;
            while ha < 180.0 {
                k += 1;
                // surfaces cycle through a fixed set of poses
                let tilt = [0.0f32, 90.0, 90.0, 30.0, 180.0, 90.0, 135.0, 60.0][(k % 8) as usize];
                let az = [0.0f32, 0.0, 90.0, -45.0, 0.0, -90.0, 135.0, 180.0][(k % 8) as usize];
                v.push(SunCase { lat, decl, ha, tilt, az });
                ha += step;
            }
            decl += step.max(2.345);
        }
        lat += step;
    }
    v
}

fn sun_random() -> BoxedStrategy<SunCase> {
    (dec2(-66.0, 66.0), dec2(-23.45, 23.45), dec2(-179.99, 179.99), prop_oneof![Just(0.0f32), Just(90.0f32), Just(180.0f32), dec2(0.0, 180.0)], dec2(-180.0, 180.0))
        .prop_map(|(lat, decl, ha, tilt, az)| SunCase { lat, decl, ha, tilt, az })
        .boxed()
}

// ------------------------------------------------------------------ radiation identities

#[derive(Clone, Debug, Serialize, Deserialize)]
pub struct RadCase {
    pub nday: u32,
    pub hour: f32,
    pub dir: f32,
    pub dif: f32,
    pub lat: f32,
    pub tilt: f32,
    pub az: f32,
    pub albedo: f32,
    #[serde(default)]
    pub all_hours: bool,
}

fn altitude_for(nday: u32, hour: f32, lat: f32) -> f64 {
    let decl = solar::declination_from_nday(nday) as f64;
    let ha = solar::hourangle_from_tsol(hour) as f64;
    sun_vector(lat as f64, decl, ha)[2].asin().to_degrees()
}

fn check_rad(h: &CaseH, c: &RadCase) -> Verdict {
    let g = SolarRadiation { dir: c.dir, dif: c.dif };
    let alt = altitude_for(c.nday, c.hour, c.lat);
    let gl = (c.dir + c.dif) as f64;
    let call = |tilt: f32, az: f32| catch(|| radiation_for_surface(c.nday, c.hour, g, c.lat, tilt, az, c.albedo));
    // any surface: beam never negative, everything finite
    match call(c.tilt, c.az) {
        Ok(r) => {
            vensure!(r.dir.is_finite() && r.dif.is_finite(), "C20:radiation:non-finite", "radiation on tilt {} azimuth {}: dir {} dif {} ({:?})", c.tilt, c.az, r.dir, r.dif, c);
            vensure!(r.dir >= 0.0, "C20:radiation:negative-beam", "beam radiation {} < 0 ({:?})", r.dir, c);
        }
        Err(p) => return Verdict::from_panic("C20:radiation_for_surface", &p),
    }
    // horizontal surface = horizontal input
    if alt >= 6.0 {
        h.class("alt>=6");
        match call(0.0, c.az) {
            Ok(r) => {
                let out = (r.dir + r.dif) as f64;
                vensure!((out - gl).abs() <= 1e-3 * gl + 0.05, "C20:radiation:horizontal", "horizontal surface receives {} but the horizontal input is {} ({:?}, sun altitude {:.2})", out, gl, c, alt);
            }
            Err(p) => return Verdict::from_panic("C20:radiation_for_surface", &p),
        }
        if gl > 1.0 {
            h.nontrivial(fp(c));
        }
    }
    // downward-facing surface = albedo x global horizontal (generated inputs: sun above the horizon;
    // hours of the weather file: all of them, see run_met)
    if alt >= 0.5 || c.all_hours {
        match call(180.0, c.az) {
            Ok(r) => {
                let out = (r.dir + r.dif) as f64;
                let exp = c.albedo as f64 * gl;
                vensure!((out - exp).abs() <= 2e-4 * gl + 0.02, "C20:radiation:downward", "downward-facing surface receives {} but albedo x global horizontal = {:.4} ({:?})", out, exp, c);
            }
            Err(p) => return Verdict::from_panic("C20:radiation_for_surface", &p),
        }
    }
    h.sample(|| json!(c));
    Verdict::Pass
}

fn rad_random() -> BoxedStrategy<RadCase> {
    (1u32..=365, dec2(1.0, 24.0), prop_oneof![Just(0.0f32), dec2(0.0, 1000.0)], dec2(0.0, 500.0), dec2(-66.0, 66.0), prop_oneof![Just(0.0f32), Just(90.0f32), Just(180.0f32), dec2(0.0, 180.0)], dec2(-180.0, 180.0), dec2(0.0, 1.0))
        .prop_map(|(nday, hour, dir, dif, lat, tilt, az, albedo)| RadCase { nday, hour, dir, dif, lat, tilt, az, albedo, all_hours: false })
        .boxed()
}

// ------------------------------------------------------------------ tables

fn zone_of(name: &str) -> Option<ClimateZone> {
    ClimateZone::try_from(name).ok()
}

/// azimuth (model convention S=0, E=+90) of the centre of each orientation class
const CLASS_POSES: [(&str, f32, f32); 9] = [("HZ", 0.0, 0.0), ("S", 90.0, 0.0), ("SE", 90.0, 45.0), ("E", 90.0, 90.0), ("NE", 90.0, 135.0), ("N", 90.0, 180.0), ("NW", 90.0, -135.0), ("W", 90.0, -90.0), ("SW", 90.0, -45.0)];

fn run_tables(ctx: &Ctx) {
    let zones: Vec<String> = ZONES.iter().map(|s| s.to_string()).collect();
    ctx.run_enum("tables", &zones, true, |h, zname| {
        let z = match zone_of(zname) {
            Some(z) => z,
            None => vfail!("C20:zone:unknown-name", "ClimateZone::try_from({:?}) fails", zname),
        };
        vensure!(format!("{}", z) == *zname, "C20:zone:roundtrip", "zone {} displays as {}", zname, z);
        let js = serde_json::to_string(&z).unwrap_or_default();
        let back: Result<ClimateZone, _> = serde_json::from_str(&js);
        vensure!(back.ok() == Some(z), "C20:zone:serde-roundtrip", "zone {} does not survive JSON ({})", zname, js);
        {
            let meta = CLIMATEMETADATA.lock().unwrap_or_else(|e| e.into_inner());
            let mi = match meta.get(&z) {
                Some(m) => m,
                None => vfail!("C20:tables:metadata-missing", "no CLIMATEMETADATA entry for zone {}", zname),
            };
            vensure!(mi.zc == z && mi.latitude > 20.0 && mi.latitude < 50.0, "C20:tables:metadata-wrong", "metadata of {}: zc {} latitude {}", zname, mi.zc, mi.latitude);
        }
        {
            let july = JULYRADDATA.lock().unwrap_or_else(|e| e.into_inner());
            let rows = match july.get(&z) {
                Some(r) => r,
                None => vfail!("C20:tables:july-missing", "no JULYRADDATA entry for zone {}", zname),
            };
            vensure!(!rows.is_empty(), "C20:tables:july-empty", "JULYRADDATA for {} has no hours", zname);
            for r in rows {
                vensure!(r.month == 7 && r.day >= 1 && r.day <= 31, "C20:tables:july-date", "July table of {} has a row for {}/{}", zname, r.day, r.month);
                vensure!(r.altitude > 0.0 && r.altitude <= 90.0, "C20:tables:july-altitude", "July table of {}: altitude {} at hour {}", zname, r.altitude, r.hour);
                vensure!(r.dir >= 0.0 && r.dif >= 0.0 && r.dir.is_finite() && r.dif.is_finite(), "C20:tables:july-negative", "July table of {}: dir {} dif {} at hour {}", zname, r.dir, r.dif, r.hour);
                vensure!(r.azimuth >= -180.0 && r.azimuth <= 180.0, "C20:tables:july-azimuth", "July table of {}: azimuth {}", zname, r.azimuth);
                h.evals(1);
            }
            h.class_n("july-hours", rows.len() as u64);
        }
        {
            let monthly = MONTHLYRADDATA.lock().unwrap_or_else(|e| e.into_inner());
            for (cname, _, _) in CLASS_POSES {
                let rows: Vec<_> = monthly.iter().filter(|e| e.zone == z && orientation_name(e.orientation) == cname).collect();
                vensure!(rows.len() == 1, "C20:tables:monthly-missing", "{} MONTHLYRADDATA entries for zone {} orientation {}", rows.len(), zname, cname);
                let r = rows[0];
                vensure!(r.dir.len() == 12 && r.dif.len() == 12, "C20:tables:monthly-length", "zone {} orientation {}: {} / {} monthly values", zname, cname, r.dir.len(), r.dif.len());
                for v in r.dir.iter().chain(r.dif.iter()) {
                    vensure!(*v >= 0.0 && v.is_finite(), "C20:tables:monthly-negative", "zone {} orientation {}: value {}", zname, cname, v);
                    if *v > 0.0 {
                        h.nontrivial(fp(&(zname, cname, v.to_bits())));
                    }
                    h.evals(1);
                }
            }
        }
        // the lookup the indicators use returns all nine classes
        let tot = bemodel::climatedata::total_radiation_in_july_by_orientation(&z);
        vensure!(tot.len() == 9 && tot.values().all(|v| *v > 0.0), "C20:tables:july-lookup", "total_radiation_in_july_by_orientation({}) has {} entries", zname, tot.len());
        h.sample(|| json!({"zone": zname}));
        Verdict::Pass
    });
}

fn run_met(ctx: &Ctx) {
    let txt = match std::fs::read_to_string("/repo/climate/src/zonaD3.met") {
        Ok(t) => t,
        Err(e) => {
            ctx.infra_error(format!("cannot read the shipped weather file: {}", e));
            return;
        }
    };
    let met = match catch(|| climate::parsemet(&txt)) {
        Ok(Ok(m)) => m,
        Ok(Err(e)) => {
            ctx.report("met_file", "C20:met:parse-error", &format!("shipped weather file does not parse: {}", e), &"zonaD3.met");
            return;
        }
        Err(p) => {
            ctx.report("met_file", &format!("C20:met:{}", p.signature()), &p.msg, &"zonaD3.met");
            return;
        }
    };
    let lat = met.meta.latitude;
    // (1) identities on every hour of the file
    let idx: Vec<usize> = (0..met.data.len()).collect();
    ctx.run_enum("met_hours", &idx, true, |h, i| {
        let d = &met.data[*i];
        let nday = climate::nday_from_ymd(2001, d.month, d.day);
        let c = RadCase {
            nday,
            hour: d.hour,
            dir: d.rdirhor,
            dif: d.rdifhor,
            lat,
            tilt: [90.0f32, 45.0, 90.0, 120.0][*i % 4],
            az: [0.0f32, 90.0, -90.0, 180.0, 45.0][*i % 5],
            albedo: 0.2,
            all_hours: true,
        };
        check_rad(h, &c)
    });
    // (2) monthly table of the zone = monthly sums over the file, per orientation class under the model's convention
    let z = ClimateZone::D3;
    let classes: Vec<(String, f32, f32)> = CLASS_POSES.iter().map(|(n, t, a)| (n.to_string(), *t, *a)).collect();
    ctx.run_enum("met_monthly_table", &classes, true, |h, (cname, tilt, az)| {
        let rad = climate::period_radiation_for_surface(&met.data, lat, *tilt, *az, 0.2);
        let mut dir = [0.0f64; 12];
        let mut dif = [0.0f64; 12];
        for r in &rad {
            dir[(r.month - 1) as usize] += r.dir as f64 / 1000.0;
            dif[(r.month - 1) as usize] += r.dif as f64 / 1000.0;
        }
        let monthly = MONTHLYRADDATA.lock().unwrap_or_else(|e| e.into_inner());
        let row = match monthly.iter().find(|e| e.zone == z && orientation_name(e.orientation) == cname) {
            Some(r) => r,
            None => vfail!("C20:tables:monthly-missing", "no D3 row for {}", cname),
        };
        let mirrored = climate::period_radiation_for_surface(&met.data, lat, *tilt, -*az, 0.2);
        let mut mdir = [0.0f64; 12];
        let mut mdif = [0.0f64; 12];
        for r in &mirrored {
            mdir[(r.month - 1) as usize] += r.dir as f64 / 1000.0;
            mdif[(r.month - 1) as usize] += r.dif as f64 / 1000.0;
        }
        let mut known_mirrored = false;
        for m in 0..12 {
            h.evals(2);
            let (td, tf) = (row.dir[m] as f64, row.dif[m] as f64);
            let off = |a: f64, b: f64| (a - b).abs() > 0.0075 + 2e-4 * a;
            if off(td, dir[m]) || off(tf, dif[m]) {
                let sig = format!("C20:tables:monthly-vs-weather-file:{}", cname);
                if h.known(&sig) {
                    known_mirrored = true;
                    break;
                }
                return Verdict::fail(
                    sig,
                    format!(
                        "zone D3, class {} (tilt {}, azimuth {} in the model's convention), month {}: table dir {} dif {}, radiation model over the shipped file gives dir {:.3} dif {:.3} (the mirrored azimuth {} gives dir {:.3})",
                        cname,
                        tilt,
                        az,
                        m + 1,
                        td,
                        tf,
                        dir[m],
                        dif[m],
                        -az,
                        mdir[m]
                    ),
                );
            }
        }
        if known_mirrored {
            // the row is known to hold the mirrored surface: it must then equal that one exactly, so that any
            // other change of the table is still reported
            h.class("known-mirrored-row");
            for m in 0..12 {
                let (td, tf) = (row.dir[m] as f64, row.dif[m] as f64);
                if (td - mdir[m]).abs() > 0.0075 + 2e-4 * td || (tf - mdif[m]).abs() > 0.0075 + 2e-4 * tf {
                    return Verdict::fail(
                        format!("C20:tables:monthly-vs-weather-file-mirrored:{}", cname),
                        format!("zone D3, class {}, month {}: table dir {} dif {} equals neither the surface of that class (dir {:.3}) nor its mirror image (dir {:.3} dif {:.3})", cname, m + 1, td, tf, dir[m], mdir[m], mdif[m]),
                    );
                }
            }
        }
        h.nontrivial(fp(cname));
        h.sample(|| json!({"class": cname, "tilt": tilt, "azimuth": az, "july_dir": dir[6], "july_dif": dif[6]}));
        Verdict::Pass
    });
    // (3) July design-day rows of the zone = the file's rows of that day (azimuth sign as converted by the parser)
    let july = JULYRADDATA.lock().unwrap_or_else(|e| e.into_inner());
    if let Some(rows) = july.get(&z) {
        let rows = rows.clone();
        drop(july);
        ctx.run_enum("met_july_day", &(0..rows.len()).collect::<Vec<_>>(), true, |h, i| {
            let r = &rows[*i];
            let f = met.data.iter().find(|d| d.month == r.month && d.day == r.day && (d.hour - r.hour).abs() < 1e-3);
            let f = match f {
                Some(f) => f,
                None => vfail!("C20:tables:july-vs-weather-file", "July table row {}/{} hour {} has no counterpart in the shipped file", r.day, r.month, r.hour),
            };
            vensure!(
                (f.rdirhor - r.dir).abs() < 0.51 && (f.rdifhor - r.dif).abs() < 0.51 && ((90.0 - f.zenith) - r.altitude).abs() < 0.051 && (f.azimuth - r.azimuth).abs() < 0.051,
                "C20:tables:july-vs-weather-file",
                "July table row hour {}: dir {} dif {} altitude {} azimuth {}; shipped file: dir {} dif {} altitude {} azimuth {}",
                r.hour,
                r.dir,
                r.dif,
                r.altitude,
                r.azimuth,
                f.rdirhor,
                f.rdifhor,
                90.0 - f.zenith,
                f.azimuth
            );
            // the table's sun position agrees with the radiation model's own astronomy for that hour (solar time = table hour)
            let nday = climate::nday_from_ymd(2001, r.month, r.day);
            let alt = altitude_for(nday, r.hour, lat);
            vensure!((alt - r.altitude as f64).abs() < 4.0, "C20:tables:july-sun-position", "July table hour {}: altitude {} but the radiation model places the sun at {:.2}", r.hour, r.altitude, alt);
            h.nontrivial(fp(&(r.hour.to_bits(), r.dir.to_bits())));
            Verdict::Pass
        });
    }
}

/// surfaces that face the sun (incidence angle ~ 0: the acos argument sits at 1, where rounding can push it over)
fn sun_facing_grid(fine: bool) -> Vec<SunCase> {
    let mut v = vec![];
    let span: i32 = if fine { 4 } else { 2 };
    for lat in [28.3f32, 40.68333, 36.0, 43.0, 0.0, 60.0] {
        let mut decl = -23.45f32;
        while decl <= 23.46 {
            let mut ha = -100.0f32;
            while ha <= 100.0 {
                let s = sun_vector(lat as f64, decl as f64, ha as f64);
                let alt = s[2].asin().to_degrees();
                if alt >= 1.0 {
                    let az = s[0].atan2(-s[1]).to_degrees();
                    let t0 = ((90.0 - alt) * 1000.0).round() / 1000.0;
                    let a0 = (az * 1000.0).round() / 1000.0;
                    for dt in -span..=span {
                        for da in -span..=span {
                            v.push(SunCase { lat, decl, ha, tilt: (t0 + dt as f64 * 0.001) as f32, az: (a0 + da as f64 * 0.001) as f32 });
                        }
                    }
                }
                ha += 2.5;
            }
            decl += if fine { 0.5 } else { 1.0 };
        }
    }
    // the sun at the zenith (latitude = declination at solar noon) over a horizontal surface, and just off it
    let mut d = -23.45f32;
    while d <= 23.46 {
        for (dl, dh) in [(0.0f32, 0.0f32), (0.001, 0.0), (0.0, 0.001), (-0.001, 0.002), (0.0, -0.001)] {
            v.push(SunCase { lat: d + dl, decl: d, ha: dh, tilt: 0.0, az: 0.0 });
        }
        d += 0.01;
    }
    v
}

pub fn run(args: &Args) -> ! {
    let ctx = Ctx::new("C20", "exploration", args);
    ctx.rule("calendar: all 365 dates (exhaustive). sun: latitude x declination x hour angle grid (quick 4 degrees, thorough 0.5 degrees) plus random points, surfaces of 8 fixed poses on the grid and random poses, and (sun_facing, exhaustive) surfaces that face the sun of each grid point exactly or within 0.002 degrees (thorough 0.004) in steps of 0.001; oracle = unit-vector spherical astronomy in f64, directions compared (0.05 degrees) for altitude >= 0.5. radiation: identities (horizontal conservation for altitude >= 6, downward = albedo x global, beam >= 0) on random inputs and on all 8760 hours of the shipped weather file. tables: all 32 zones x 9 classes x 12 months and the July-day hours (exhaustive): existence, signs, lengths, zone <-> string, and for D3 equality with the monthly sums / design-day rows computed from the shipped file. Non-trivial: sun up and |hour angle| >= 5 degrees; non-zero table cell; hour with global radiation > 1 W/m2 and altitude >= 6.");
    ctx.assume("the shipped weather file climate/src/zonaD3.met is the source of the D3 tables");
    ctx.replay_regressions(replay_one);
    run_calendar(&ctx);
    let grid = sun_grid(ctx.tier().pick(1.0, 0.5));
    ctx.run_enum("sun_grid", &grid, true, check_sun);
    ctx.run_enum("sun_facing", &sun_facing_grid(ctx.tier() == Tier::Thorough), true, check_sun);
    ctx.run_prop("sun_random", ctx.tier().pick(8_000_000, 40_000_000), sun_random, check_sun);
    ctx.run_prop("radiation_random", ctx.tier().pick(8_000_000, 40_000_000), rad_random, check_rad);
    run_tables(&ctx);
    run_met(&ctx);
    for c in ["calendar/day-31", "sun_grid/sun-up", "sun_grid/sun-down", "radiation_random/alt>=6", "met_hours/alt>=6"] {
        ctx.require_class(c);
    }
    let _ = Tier::Quick;
    ctx.finish()
}

pub fn replay_one(ctx: &Ctx, doc: &ReplayDoc) {
    use crate::engine::replay_case;
    match doc.sub.as_str() {
        "sun_grid" | "sun_random" | "sun_facing" => replay_case::<SunCase>(ctx, &doc.sub, &doc.case, check_sun),
        "radiation_random" => replay_case::<RadCase>(ctx, &doc.sub, &doc.case, check_rad),
        s => ctx.infra_error(format!("replay of sub {} is not supported (enumerated domain: rerun the check)", s)),
    }
}
