//! C14 — indicator computation is total: never crashes or hangs, a failure never affects later
//! computations in the process, and sane models give finite numbers that serialise and load back.

use std::time::Duration;

use proptest::prelude::*;
use serde::{Deserialize, Serialize};
use serde_json::{json, Value};

use bemodel::energy::EnergyIndicators;
use bemodel::{BoundaryType, Model, Uuid};

use crate::engine::{catch, fp, worker_call, Args, CaseH, Ctx, PanicInfo, ReplayDoc, Verdict, WorkerOut};
use crate::gen::geom::dec2;
use crate::gen::model::{self, Params, Plan};

#[derive(Clone, Debug, Serialize, Deserialize)]
pub enum Base {
    Shipped(String),
    Plan(Box<Plan>),
}

#[derive(Clone, Debug, Serialize, Deserialize)]
pub struct EditP {
    /// position in the list of candidate nodes for this edit kind (scaled)
    pub at: u32,
    /// 0 delete key, 1 delete array item, 2 empty array, 3 duplicate item, 4 truncate array,
    /// 5 redirect id -> another id of the document, 6 redirect id -> fresh, 7 redirect id -> nil,
    /// 8 zero a number, 9 negate a number, 10 resize a numeric array (0/1/23/25 values)
    pub kind: u8,
    pub arg: u16,
}

#[derive(Clone, Debug, Serialize, Deserialize)]
pub struct MutCase {
    pub base: Base,
    pub edits: Vec<EditP>,
}

fn shipped_names() -> Vec<String> {
    crate::util::files_with_ext(std::path::Path::new("/repo/bemodel/tests/data"), &["json"])
        .into_iter()
        .map(|p| p.file_name().unwrap().to_string_lossy().to_string())
        .collect()
}

fn base_value(b: &Base) -> Value {
    match b {
        Base::Shipped(n) => {
            let txt = std::fs::read_to_string(format!("/repo/bemodel/tests/data/{}", n)).unwrap_or_default();
            serde_json::from_str(&txt).unwrap_or(Value::Null)
        }
        Base::Plan(p) => serde_json::to_value(model::build(p)).unwrap_or(Value::Null),
    }
}

// ---- JSON tree edits

fn collect<'a>(v: &'a Value, path: &mut Vec<String>, out: &mut Vec<(Vec<String>, &'a Value)>) {
    out.push((path.clone(), v));
    match v {
        Value::Object(m) => {
            for (k, c) in m {
                path.push(k.clone());
                collect(c, path, out);
                path.pop();
            }
        }
        Value::Array(a) => {
            for (i, c) in a.iter().enumerate() {
                path.push(i.to_string());
                collect(c, path, out);
                path.pop();
            }
        }
        _ => {}
    }
}

fn get_mut<'a>(v: &'a mut Value, path: &[String]) -> Option<&'a mut Value> {
    let mut cur = v;
    for p in path {
        cur = match cur {
            Value::Object(m) => m.get_mut(p)?,
            Value::Array(a) => a.get_mut(p.parse::<usize>().ok()?)?,
            _ => return None,
        };
    }
    Some(cur)
}

fn is_uuid(s: &str) -> bool {
    s.len() == 36 && Uuid::parse_str(s).is_ok()
}

/// Applies one edit; returns a short description (None when there is no candidate node)
pub fn apply_edit(doc: &mut Value, e: &EditP) -> Option<String> {
    let snapshot = doc.clone();
    let mut nodes = vec![];
    collect(&snapshot, &mut vec![], &mut nodes);
    let cand: Vec<&(Vec<String>, &Value)> = nodes
        .iter()
        .filter(|(p, v)| match e.kind {
            0 => !p.is_empty() && p.last().map_or(false, |k| k.parse::<usize>().is_err()),
            1 => !p.is_empty() && p.last().map_or(false, |k| k.parse::<usize>().is_ok()),
            2 | 4 => v.as_array().map_or(false, |a| !a.is_empty()),
            3 => !p.is_empty() && p.last().map_or(false, |k| k.parse::<usize>().is_ok()),
            5 | 6 | 7 => v.as_str().map_or(false, is_uuid),
            8 | 9 => v.is_number(),
            10 => v.as_array().map_or(false, |a| !a.is_empty() && a.iter().all(|x| x.is_number())),
            // 11: a calendar without entries (what an editor leaves after "new calendar"): the period list of a yearly schedule
            11 => p.len() == 4 && p[0] == "schedules" && p[1] == "year" && p[3] == "values" && v.as_array().map_or(false, |a| !a.is_empty()),
            _ => false,
        })
        .collect();
    if cand.is_empty() {
        return None;
    }
    let (path, val) = cand[(e.at as usize) % cand.len()];
    let (parent, last) = path.split_at(path.len().saturating_sub(1));
    let desc = format!("{}@{}", ["delete-key", "delete-item", "empty-array", "duplicate-item", "truncate-array", "redirect-id-existing", "redirect-id-fresh", "redirect-id-nil", "zero-number", "negate-number", "resize-values", "empty-calendar"][e.kind as usize % 12], path.join("."));
    match e.kind {
        0 => {
            if let Some(Value::Object(m)) = get_mut(doc, parent) {
                m.remove(&last[0]);
            }
        }
        1 => {
            if let Some(Value::Array(a)) = get_mut(doc, parent) {
                let i = last[0].parse::<usize>().ok()?;
                if i < a.len() {
                    a.remove(i);
                }
            }
        }
        2 | 11 => {
            *get_mut(doc, path)? = json!([]);
        }
        3 => {
            if let Some(Value::Array(a)) = get_mut(doc, parent) {
                let i = last[0].parse::<usize>().ok()?;
                if i < a.len() {
                    let c = a[i].clone();
                    a.insert(i, c);
                }
            }
        }
        4 => {
            if let Some(Value::Array(a)) = get_mut(doc, path) {
                let keep = (e.arg as usize) % a.len();
                a.truncate(keep);
            }
        }
        5 => {
            let ids: Vec<&str> = nodes.iter().filter_map(|(_, v)| v.as_str()).filter(|s| is_uuid(s)).collect();
            let other = ids[(e.arg as usize) % ids.len()].to_string();
            *get_mut(doc, path)? = json!(other);
        }
        6 => {
            *get_mut(doc, path)? = json!(model::uid(model::K_FRESH, e.arg as usize, 77).to_string());
        }
        7 => {
            *get_mut(doc, path)? = json!(Uuid::nil().to_string());
        }
        8 => {
            *get_mut(doc, path)? = if val.is_u64() || val.is_i64() { json!(0) } else { json!(0.0) };
        }
        9 => {
            *get_mut(doc, path)? = if let Some(i) = val.as_i64() {
                json!(-i)
            } else {
                json!(-val.as_f64().unwrap_or(0.0))
            };
        }
        10 => {
            if let Some(Value::Array(a)) = get_mut(doc, path) {
                let n = [0usize, 1, 23, 25][(e.arg as usize) % 4];
                let fill = a[0].clone();
                a.resize(n, fill);
            }
        }
        _ => return None,
    }
    Some(desc)
}

// ---- worker side

fn non_finite_in(ind: &EnergyIndicators) -> Option<String> {
    let d = format!("{:?}", ind);
    let b = d.as_bytes();
    for pat in ["NaN", "inf"] {
        let mut start = 0;
        while let Some(pos) = d[start..].find(pat) {
            let i = start + pos;
            let before = if i == 0 { b' ' } else { b[i - 1] };
            let after = *b.get(i + pat.len()).unwrap_or(&b' ');
            let num_ctx = matches!(before, b' ' | b'(' | b'-' | b'[') && matches!(after, b',' | b')' | b' ' | b'}' | b']');
            if num_ctx {
                let lo = i.saturating_sub(80);
                return Some(d[lo..(i + 10).min(d.len())].to_string());
            }
            start = i + pat.len();
        }
    }
    None
}

thread_local! {
    static GOOD: std::cell::RefCell<Option<(Model, String)>> = const { std::cell::RefCell::new(None) };
}

fn good_baseline() -> (Model, String) {
    GOOD.with(|g| {
        let mut g = g.borrow_mut();
        if g.is_none() {
            let txt = std::fs::read_to_string("/repo/bemodel/tests/data/cubo.json").expect("cubo.json");
            let m = Model::from_json(&txt).expect("cubo loads");
            let ind = m.energy_indicators();
            *g = Some((m, digest(&ind)));
        }
        g.clone().unwrap()
    })
}

fn digest(ind: &EnergyIndicators) -> String {
    format!("{:?}|{:?}|{:?}|{}|{}", ind.K_data.K, ind.n50_data.n50, ind.q_soljul_data.q_soljul, ind.area_ref, ind.vol_env_net)
}

/// computes, then (after a panic) recomputes a known-good model to see whether the process still works
fn compute_and_probe(m: &Model) -> Value {
    let (good, base) = good_baseline();
    let r = catch(|| m.energy_indicators());
    match r {
        Ok(ind) => {
            let nf = non_finite_in(&ind);
            let rt = match ind.as_json() {
                Ok(j) => match serde_json::from_str::<EnergyIndicators>(&j) {
                    Ok(back) => {
                        let a: Value = serde_json::from_str(&j).unwrap_or(Value::Null);
                        let b = serde_json::to_value(&back).unwrap_or(Value::Null);
                        if crate::props::model_props::value_diff(&a, &b, "$").is_none() {
                            "ok".to_string()
                        } else {
                            "differs".to_string()
                        }
                    }
                    Err(e) => format!("does not load back: {}", e),
                },
                Err(e) => format!("as_json fails: {}", e),
            };
            json!({"outcome": "ok", "non_finite": nf, "roundtrip": rt})
        }
        Err(p) => {
            let after = catch(|| good.energy_indicators());
            let after_ok = match after {
                Ok(i) => digest(&i) == base,
                Err(_) => false,
            };
            json!({"outcome": "panic", "panic": p, "after_ok": after_ok})
        }
    }
}

pub fn worker(sub: &str, v: Value) -> Value {
    match sub {
        "C14.mutant" => {
            let c: MutCase = serde_json::from_value(v).expect("case decodes");
            let mut doc = base_value(&c.base);
            let mut applied = vec![];
            for e in &c.edits {
                if let Some(d) = apply_edit(&mut doc, e) {
                    applied.push(d);
                }
            }
            let m: Model = match serde_json::from_value(doc) {
                Ok(m) => m,
                Err(e) => return json!({"outcome": "rejected", "applied": applied, "why": e.to_string()}),
            };
            let mut r = compute_and_probe(&m);
            r["applied"] = json!(applied);
            r
        }
        "C14.louvres" => {
            let c: LouvreCase = serde_json::from_value(v).expect("case decodes");
            let m = match louvre_model(&c) {
                Some(m) => m,
                None => return json!({"outcome": "rejected", "why": "no positioned window"}),
            };
            let mut r = compute_and_probe(&m);
            r["shades"] = json!(m.shades.len());
            r
        }
        "C14.long_calendar" => {
            let c: LongCal = serde_json::from_value(v).expect("case decodes");
            let mut m: Model = match serde_json::from_value(base_value(&Base::Shipped(c.base.clone()))) {
                Ok(m) => m,
                Err(e) => return json!({"outcome": "rejected", "why": e.to_string()}),
            };
            // the calendar of the first load that has one: its last period gets `days` days
            let yid = m.loads.iter().find_map(|l| l.people_schedule.or(l.equipment_schedule).or(l.lighting_schedule));
            match yid.and_then(|id| m.schedules.year.iter_mut().find(|y| y.id == id)).and_then(|y| y.values.last_mut()) {
                Some(v) => v.1 = c.days,
                None => return json!({"outcome": "rejected", "why": "no load with a calendar"}),
            }
            compute_and_probe(&m)
        }
        "C14.history" => {
            let ops: Vec<Op> = serde_json::from_value(v).expect("case decodes");
            let mut m = Model::default();
            m.meta.name = "history".into();
            for (i, op) in ops.iter().enumerate() {
                apply_op(&mut m, op, i);
                let r = compute_and_probe(&m);
                if r["outcome"] != json!("ok") {
                    let mut r = r;
                    r["step"] = json!(i);
                    r["windows"] = json!(m.windows.len());
                    return r;
                }
            }
            json!({"outcome": "ok", "steps": ops.len(), "windows": m.windows.len(), "walls": m.walls.len()})
        }
        _ => Value::Null,
    }
}

// ---- editor histories

#[derive(Clone, Debug, Serialize, Deserialize)]
pub enum Op {
    AddSpace,
    AddWall { space: Option<u16>, cons: Option<u16>, positioned: bool, bounds: u8, tilt: u8 },
    AddWindow { wall: Option<u16>, cons: Option<u16>, positioned: bool, setback: f32 },
    AddShade { positioned: bool },
    AddBridge { l: f32 },
    AddMaterial { resistance: bool },
    AddWallCons { layers: u8 },
    AddGlass,
    AddFrame,
    AddWinCons { glass: Option<u16>, frame: Option<u16> },
    AddDay { len: u8 },
    AddWeek { day: Option<u16>, count: u8 },
    AddYear { week: Option<u16>, count: u16 },
    AddLoads { sch: Option<u16> },
    AttachLoads { space: u16, loads: u16 },
    SetVentilation { v: Option<f32> },
    SetN50 { v: Option<f32> },
    Delete { kind: u8, at: u16 },
}

fn op() -> BoxedStrategy<Op> {
    let o16 = || prop_oneof![1 => Just(None), 4 => any::<u16>().prop_map(Some)];
    prop_oneof![
        2 => Just(Op::AddSpace),
        4 => (o16(), o16(), any::<bool>(), 0u8..4, 0u8..3).prop_map(|(space, cons, positioned, bounds, tilt)| Op::AddWall { space, cons, positioned, bounds, tilt }),
        4 => (o16(), o16(), any::<bool>(), prop_oneof![Just(0.0f32), dec2(0.0, 0.5)]).prop_map(|(wall, cons, positioned, setback)| Op::AddWindow { wall, cons, positioned, setback }),
        1 => any::<bool>().prop_map(|positioned| Op::AddShade { positioned }),
        1 => prop_oneof![Just(0.0f32), dec2(-5.0, 50.0)].prop_map(|l| Op::AddBridge { l }),
        1 => any::<bool>().prop_map(|resistance| Op::AddMaterial { resistance }),
        1 => (0u8..4).prop_map(|layers| Op::AddWallCons { layers }),
        1 => Just(Op::AddGlass),
        1 => Just(Op::AddFrame),
        1 => (o16(), o16()).prop_map(|(glass, frame)| Op::AddWinCons { glass, frame }),
        1 => prop_oneof![Just(24u8), Just(0u8), Just(1u8), Just(23u8), Just(25u8)].prop_map(|len| Op::AddDay { len }),
        1 => (o16(), prop_oneof![Just(7u8), Just(0u8), Just(3u8)]).prop_map(|(day, count)| Op::AddWeek { day, count }),
        1 => (o16(), prop_oneof![Just(365u16), Just(0u16), Just(100u16), Just(364u16)]).prop_map(|(week, count)| Op::AddYear { week, count }),
        1 => o16().prop_map(|sch| Op::AddLoads { sch }),
        1 => (any::<u16>(), any::<u16>()).prop_map(|(space, loads)| Op::AttachLoads { space, loads }),
        1 => prop_oneof![Just(None), dec2(0.0, 100.0).prop_map(Some)].prop_map(|v| Op::SetVentilation { v }),
        1 => prop_oneof![Just(None), dec2(0.0, 10.0).prop_map(Some)].prop_map(|v| Op::SetN50 { v }),
        2 => (0u8..8, any::<u16>()).prop_map(|(kind, at)| Op::Delete { kind, at }),
    ]
    .boxed()
}

fn pick_id<T>(v: &[T], p: Option<u16>, id: impl Fn(&T) -> Uuid) -> Uuid {
    match (p, v.is_empty()) {
        (Some(p), false) => id(&v[model::pick(p, v.len())]),
        _ => Uuid::nil(),
    }
}

fn apply_op(m: &mut Model, op: &Op, step: usize) {
    use bemodel::*;
    let nid = |k: u8| model::uid(k, step, 4242);
    let rect = |w: f32, h: f32| vec![nalgebra::point![0.0, 0.0], nalgebra::point![w, 0.0], nalgebra::point![w, h], nalgebra::point![0.0, h]];
    match op {
        Op::AddSpace => m.spaces.push(Space {
            id: nid(model::K_SPACE),
            ..Space::default()
        }),
        Op::AddWall { space, cons, positioned, bounds, tilt } => {
            let g = WallGeom {
                tilt: [90.0, 0.0, 180.0][*tilt as usize % 3],
                azimuth: (step as f32 * 37.0) % 360.0 - 180.0,
                position: if *positioned { Some(nalgebra::point![step as f32, 0.0, 0.0]) } else { None },
                polygon: rect(4.0, 3.0),
            };
            m.walls.push(Wall {
                id: nid(model::K_WALL),
                name: "Opaco".into(),
                bounds: [BoundaryType::EXTERIOR, BoundaryType::GROUND, BoundaryType::INTERIOR, BoundaryType::ADIABATIC][*bounds as usize % 4],
                cons: pick_id(&m.cons.wallcons, *cons, |c| c.id),
                space: pick_id(&m.spaces, *space, |s| s.id),
                next_to: None,
                geometry: g,
            });
        }
        Op::AddWindow { wall, cons, positioned, setback } => m.windows.push(Window {
            id: nid(model::K_WIN),
            name: "Ventana".into(),
            cons: pick_id(&m.cons.wincons, *cons, |c| c.id),
            wall: pick_id(&m.walls, *wall, |w| w.id),
            geometry: WinGeom {
                position: if *positioned { Some(nalgebra::point![1.0, 1.0]) } else { None },
                height: 1.0,
                width: 1.0,
                setback: *setback,
            },
        }),
        Op::AddShade { positioned } => m.shades.push(Shade {
            id: nid(model::K_SHADE),
            name: "Sombra".into(),
            geometry: WallGeom {
                tilt: 90.0,
                azimuth: 0.0,
                position: if *positioned { Some(nalgebra::point![0.0, -3.0, 0.0]) } else { None },
                polygon: rect(6.0, 5.0),
            },
        }),
        Op::AddBridge { l } => m.thermal_bridges.push(ThermalBridge {
            id: nid(model::K_TB),
            name: "PT".into(),
            kind: ThermalBridgeKind::GENERIC,
            l: *l,
            psi: 0.5,
        }),
        Op::AddMaterial { resistance } => m.cons.materials.push(Material {
            id: nid(model::K_MAT),
            name: "mat".into(),
            properties: if *resistance {
                MatProps::Resistance { resistance: 0.18, vapour_diff: None }
            } else {
                MatProps::default()
            },
        }),
        Op::AddWallCons { layers } => {
            let mats: Vec<Uuid> = m.cons.materials.iter().map(|x| x.id).collect();
            m.cons.wallcons.push(WallCons {
                id: nid(model::K_WALLCONS),
                name: "cons".into(),
                layers: (0..*layers as usize)
                    .map(|i| Layer {
                        material: if mats.is_empty() { Uuid::nil() } else { mats[i % mats.len()] },
                        e: 0.1,
                    })
                    .collect(),
                absorptance: 0.7,
            });
        }
        Op::AddGlass => m.cons.glasses.push(Glass {
            id: nid(model::K_GLASS),
            ..Glass::default()
        }),
        Op::AddFrame => m.cons.frames.push(Frame {
            id: nid(model::K_FRAME),
            ..Frame::default()
        }),
        Op::AddWinCons { glass, frame } => {
            let g = pick_id(&m.cons.glasses, *glass, |c| c.id);
            let f = pick_id(&m.cons.frames, *frame, |c| c.id);
            m.cons.wincons.push(WinCons {
                id: nid(model::K_WINCONS),
                glass: g,
                frame: f,
                ..WinCons::default()
            });
        }
        Op::AddDay { len } => m.schedules.day.push(ScheduleDay {
            id: nid(model::K_DAY),
            name: "d".into(),
            values: vec![0.5; *len as usize],
        }),
        Op::AddWeek { day, count } => {
            let d = pick_id(&m.schedules.day, *day, |c| c.id);
            m.schedules.week.push(ScheduleWeek {
                id: nid(model::K_WEEK),
                name: "w".into(),
                values: if *count == 0 { vec![] } else { vec![(d, *count as u32)] },
            });
        }
        Op::AddYear { week, count } => {
            let w = pick_id(&m.schedules.week, *week, |c| c.id);
            m.schedules.year.push(Schedule {
                id: nid(model::K_YEAR),
                name: "y".into(),
                values: if *count == 0 { vec![] } else { vec![(w, *count as u32)] },
            });
        }
        Op::AddLoads { sch } => {
            let y = match (sch, m.schedules.year.is_empty()) {
                (Some(p), false) => Some(m.schedules.year[model::pick(*p, m.schedules.year.len())].id),
                (Some(_), true) => Some(Uuid::nil()),
                _ => None,
            };
            m.loads.push(SpaceLoads {
                id: nid(model::K_LOADS),
                name: "l".into(),
                area_per_person: 10.0,
                people_schedule: y,
                people_sensible: 6.0,
                people_latent: 3.0,
                equipment: 4.0,
                equipment_schedule: y,
                lighting: 4.0,
                lighting_schedule: y,
            });
        }
        Op::AttachLoads { space, loads } => {
            if !m.spaces.is_empty() && !m.loads.is_empty() {
                let l = m.loads[model::pick(*loads, m.loads.len())].id;
                let i = model::pick(*space, m.spaces.len());
                m.spaces[i].loads = Some(l);
            }
        }
        Op::SetVentilation { v } => m.meta.global_ventilation_l_s = *v,
        Op::SetN50 { v } => m.meta.n50_test_ach = *v,
        Op::Delete { kind, at } => {
            fn del<T>(v: &mut Vec<T>, at: u16) {
                if !v.is_empty() {
                    let i = model::pick(at, v.len());
                    v.remove(i);
                }
            }
            match kind % 8 {
                0 => del(&mut m.spaces, *at),
                1 => del(&mut m.walls, *at),
                2 => del(&mut m.windows, *at),
                3 => del(&mut m.cons.wallcons, *at),
                4 => del(&mut m.cons.wincons, *at),
                5 => del(&mut m.cons.materials, *at),
                6 => del(&mut m.schedules.day, *at),
                _ => del(&mut m.schedules.week, *at),
            }
        }
    }
}

// ---- driver side

fn verdict_of(h: &CaseH, out: WorkerOut, what: &str, closed_unedited: bool) -> Verdict {
    match out {
        WorkerOut::Ok(v) => {
            let outcome = v["outcome"].as_str().unwrap_or("");
            h.class(&format!("outcome/{}", outcome));
            match outcome {
                "rejected" => Verdict::Pass,
                "ok" => {
                    if closed_unedited {
                        if let Some(nf) = v["non_finite"].as_str() {
                            return Verdict::fail("C14:sane-model:non-finite", format!("{}: a reported number is not finite: ...{}", what, nf));
                        }
                        let rt = v["roundtrip"].as_str().unwrap_or("");
                        if rt != "ok" {
                            return Verdict::fail("C14:sane-model:result-does-not-roundtrip", format!("{}: indicators JSON {}", what, rt));
                        }
                        h.class("sane-model-checked");
                    } else if v["non_finite"].is_string() {
                        h.class("non-finite-on-broken-model(not asserted)");
                    }
                    Verdict::Pass
                }
                "panic" => {
                    let p: PanicInfo = serde_json::from_value(v["panic"].clone()).unwrap_or_default();
                    if v["after_ok"] != json!(true) {
                        return Verdict::fail(
                            "C14:history:later-computation-fails-after-panic",
                            format!("{}: after a panic ({}) a later computation of a good model in the same process fails or differs", what, p.msg.lines().next().unwrap_or("")),
                        );
                    }
                    Verdict::Fail {
                        sig: format!("C14:indicators:{}", p.signature()),
                        what: format!("{} (edits {}): energy_indicators() panics at {}:{} in {}: {}", what, v["applied"], p.file, p.line, p.func, p.msg.lines().next().unwrap_or("")),
                    }
                }
                _ => Verdict::fail("C14:worker-protocol", format!("unexpected worker answer {}", v)),
            }
        }
        WorkerOut::Panic(p) => Verdict::from_panic("C14:worker", &p),
        WorkerOut::Hang => Verdict::fail("C14:hang", format!("{}: no result within 60 s", what)),
        WorkerOut::Died(s) => Verdict::fail("C14:process-died", format!("{}: worker process died ({})", what, s)),
    }
}

fn check_mutant(h: &CaseH, c: &MutCase) -> Verdict {
    let (what, closed) = match &c.base {
        Base::Shipped(n) => (format!("shipped {}", n), true),
        Base::Plan(p) => (format!("generated plan (closed={})", p.closed), p.closed),
    };
    h.class(&format!("edits/{}", c.edits.len()));
    for e in &c.edits {
        h.class(&format!("kind/{}", e.kind));
    }
    let out = worker_call("C14.mutant", c, Duration::from_secs(60));
    // a calendar without entries breaks no link and gives no size or physical value a sign: the model stays sane
    let only_empty_calendars = c.edits.iter().all(|e| e.kind == 11);
    if closed && only_empty_calendars && !c.edits.is_empty() {
        h.class("sane-model-with-an-empty-calendar");
    }
    let v = verdict_of(h, out, &what, closed && only_empty_calendars);
    if !c.edits.is_empty() {
        h.nontrivial(fp(&(what.clone(), &c.edits)));
    }
    h.sample(|| json!({"base": what, "edits": c.edits}));
    v
}

fn mut_case() -> BoxedStrategy<MutCase> {
    let names = shipped_names();
    let base = prop_oneof![
        2 => (0..names.len()).prop_map(move |i| Base::Shipped(names[i].clone())),
        3 => model::plan(Params { open: false, max_spaces: 3, ..Params::default() }).prop_map(|p| Base::Plan(Box::new(p))),
        1 => model::plan(Params { open: true, max_spaces: 3, ..Params::default() }).prop_map(|p| Base::Plan(Box::new(p))),
    ];
    (base, proptest::collection::vec((any::<u32>(), prop_oneof![11 => 0u8..11, 2 => Just(11u8)], any::<u16>()).prop_map(|(at, kind, arg)| EditP { at, kind, arg }), 0..=3))
        .prop_map(|(base, edits)| MutCase { base, edits })
        .boxed()
}

// ---- calendars that declare more days than a year has

#[derive(Clone, Debug, Serialize, Deserialize)]
pub struct LongCal {
    pub base: String,
    pub days: u32,
}

fn long_calendar_cases() -> Vec<LongCal> {
    let mut v = vec![];
    for base in shipped_names() {
        for days in [366u32, 3_650, 100_000, 400_000_000] {
            v.push(LongCal { base: base.clone(), days });
        }
    }
    v
}

fn check_long_calendar(h: &CaseH, c: &LongCal) -> Verdict {
    let what = format!("shipped {} with the last period of its first load calendar {} days long", c.base, c.days);
    match worker_call("C14.long_calendar", c, Duration::from_secs(120)) {
        WorkerOut::Ok(v) => {
            let outcome = v["outcome"].as_str().unwrap_or("");
            h.class(&format!("days/{}/{}", c.days, outcome));
            if outcome == "panic" {
                let p: PanicInfo = serde_json::from_value(v["panic"].clone()).unwrap_or_default();
                return Verdict::Fail { sig: format!("C14:indicators:{}", p.signature()), what: format!("{}: energy_indicators() panics at {}:{}: {}", what, p.file, p.line, p.msg.lines().next().unwrap_or("")) };
            }
            if outcome == "ok" {
                h.nontrivial(fp(&(c.base.clone(), c.days)));
            }
            Verdict::Pass
        }
        WorkerOut::Panic(p) => Verdict::from_panic("C14:worker", &p),
        WorkerOut::Hang => Verdict::fail(format!("C14:long-calendar:{}:hang", c.days), format!("{}: no result within 120 s", what)),
        WorkerOut::Died(s) => Verdict::fail(format!("C14:long-calendar:{}:process-died", c.days), format!("{}: the worker process (3 GiB address space) died ({})", what, s)),
    }
}

// ---- regular arrays of equal shades (brise-soleil, louvres) in front of a window

#[derive(Clone, Debug, Serialize, Deserialize)]
pub struct LouvreCase {
    pub base: Base,
    pub window: u16,
    /// number of slats (the acceleration structure's leaf size is 30)
    pub n: u8,
    pub length: f32,
    pub depth: f32,
    /// spacing along the wall's Y axis
    pub step: f32,
    /// shift along the wall's X axis and distance from the wall plane
    pub shift: f32,
    pub out: f32,
}

fn louvre_model(c: &LouvreCase) -> Option<Model> {
    let mut m: Model = serde_json::from_value(base_value(&c.base)).ok()?;
    let cands: Vec<usize> = (0..m.windows.len())
        .filter(|i| {
            let w = &m.windows[*i];
            w.geometry.position.is_some() && m.walls.iter().any(|x| x.id == w.wall && x.geometry.position.is_some())
        })
        .collect();
    if cands.is_empty() {
        return None;
    }
    let win = m.windows[cands[(c.window as usize) % cands.len()]].clone();
    let wall = m.walls.iter().find(|x| x.id == win.wall)?.clone();
    let to_world = wall.geometry.to_global_coords_matrix()?;
    let wp = win.geometry.position?;
    for k in 0..c.n {
        // same extent along the wall's X axis for every slat: their centres coincide on that axis
        let p = to_world * nalgebra::point![wp.x + c.shift, wp.y + c.step * k as f32, c.out];
        m.shades.push(bemodel::Shade {
            id: model::uid(model::K_SHADE, 5000 + k as usize, 77),
            name: format!("lama{:02}", k),
            geometry: bemodel::WallGeom {
                tilt: 0.0,
                azimuth: wall.geometry.azimuth,
                position: Some(p),
                polygon: vec![nalgebra::point![0.0, 0.0], nalgebra::point![c.length, 0.0], nalgebra::point![c.length, c.depth], nalgebra::point![0.0, c.depth]],
            },
        });
    }
    Some(m)
}

fn louvre_case() -> BoxedStrategy<LouvreCase> {
    use crate::gen::geom::dec2;
    let names = shipped_names();
    let base = prop_oneof![
        2 => (0..names.len()).prop_map(move |i| Base::Shipped(names[i].clone())),
        3 => model::plan(Params { open: false, max_spaces: 2, ..Params::default() }).prop_map(|p| Base::Plan(Box::new(p))),
    ];
    (base, any::<u16>(), prop_oneof![3 => 31u8..=48, 1 => 2u8..=30, 1 => 49u8..=90], dec2(0.5, 4.0), prop_oneof![Just(0.1f32), dec2(0.05, 0.5)], prop_oneof![Just(0.0f32), Just(0.03f32), Just(0.05f32), dec2(0.01, 0.3)], dec2(-2.0, 2.0), prop_oneof![Just(0.3f32), dec2(0.05, 1.5)])
        .prop_map(|(base, window, n, length, depth, step, shift, out)| LouvreCase { base, window, n, length, depth, step, shift, out })
        .boxed()
}

fn check_louvres(h: &CaseH, c: &LouvreCase) -> Verdict {
    let out = worker_call("C14.louvres", c, Duration::from_secs(60));
    if c.n > 30 {
        h.nontrivial(fp(c));
    }
    h.class(if c.n > 30 { "slats/>30" } else { "slats/<=30" });
    let v = verdict_of(h, out, &format!("model with {} equal slats in front of a window", c.n), false);
    h.sample(|| json!({"n": c.n, "length": c.length, "step": c.step, "shift": c.shift}));
    v
}

// ---- a window plane facing the sun of one of the design-day hours (directed search: acos of a dot product that
// rounding may push beyond 1)

#[derive(Clone, Debug, Serialize, Deserialize)]
pub struct SunFacing {
    pub zone: u8,
    /// index of the hour row of the zone's July table
    pub row: u8,
    /// offsets of tilt and azimuth from the exact sun direction, in thousandths of a degree
    pub dt: i8,
    pub da: i8,
}

fn sun_facing_model(c: &SunFacing) -> Option<Model> {
    let zone = model::zone(c.zone);
    let lat = bemodel::climatedata::CLIMATEMETADATA.lock().ok()?.get(&zone)?.latitude;
    let rows = bemodel::climatedata::JULYRADDATA.lock().ok()?.get(&zone)?.clone();
    let r = rows.get(c.row as usize)?;
    let nday = climate::nday_from_ymd(2001, r.month, r.day);
    let decl = climate::solar::declination_from_nday(nday);
    let ha = climate::solar::hourangle_from_tsol(r.hour);
    let alt = climate::solar::altitude_sol_from_data(decl, ha, lat);
    if !(alt > 0.5) {
        return None;
    }
    let az = climate::solar::azimuth_sol_from_data(decl, ha, alt, lat);
    // the plane whose normal points at the sun: tilt = 90 - altitude, azimuth = solar azimuth (S = 0, E +)
    let tilt = ((90.0 - alt) * 1000.0).round() / 1000.0 + c.dt as f32 * 0.001;
    let azimuth = (az * 1000.0).round() / 1000.0 + c.da as f32 * 0.001;
    let mut m = Model::default();
    m.meta.climate = zone;
    let sid = model::uid(model::K_SPACE, 0, 5);
    m.spaces.push(bemodel::Space { id: sid, name: "s".into(), height: 3.0, ..Default::default() });
    let wid = model::uid(model::K_WALL, 0, 5);
    let rect = |w: f32, hh: f32| vec![nalgebra::point![0.0, 0.0], nalgebra::point![w, 0.0], nalgebra::point![w, hh], nalgebra::point![0.0, hh]];
    m.walls.push(bemodel::Wall {
        id: wid,
        name: "faldon".into(),
        bounds: BoundaryType::EXTERIOR,
        cons: bemodel::Uuid::nil(),
        space: sid,
        next_to: None,
        geometry: bemodel::WallGeom { tilt, azimuth, position: Some(nalgebra::point![0.0, 0.0, 3.0]), polygon: rect(6.0, 4.0) },
    });
    m.windows.push(bemodel::Window {
        id: model::uid(model::K_WIN, 0, 5),
        name: "lucernario".into(),
        cons: bemodel::Uuid::nil(),
        wall: wid,
        geometry: bemodel::WinGeom { position: Some(nalgebra::point![2.0, 1.0]), height: 1.0, width: 1.0, setback: 0.0 },
    });
    Some(m)
}

fn check_sun_facing(h: &CaseH, c: &SunFacing) -> Verdict {
    let m = match sun_facing_model(c) {
        Some(m) => m,
        None => return Verdict::Pass,
    };
    let ind = match catch(|| m.energy_indicators()) {
        Ok(i) => i,
        Err(p) => return Verdict::from_panic("C14:indicators", &p),
    };
    if let Some(nf) = non_finite_in(&ind) {
        return Verdict::fail("C14:sane-model:non-finite", format!("roof window facing the sun of design-day hour row {} in zone {} (tilt {}, azimuth {}): a reported number is not finite: ...{}", c.row, c.zone, m.walls[0].geometry.tilt, m.walls[0].geometry.azimuth, nf));
    }
    let f = ind.props.windows.values().next().and_then(|w| w.f_shobst);
    crate::vensure!(f.map_or(false, |f| (0.0..=1.0).contains(&f)), "C14:sane-model:factor-out-of-range", "roof window facing the sun (zone {}, row {}): obstruction factor {:?}", c.zone, c.row, f);
    h.nontrivial(fp(c));
    h.class(if c.dt == 0 && c.da == 0 { "exactly-facing" } else { "near-facing" });
    Verdict::Pass
}

fn sun_facing_cases(tier: crate::engine::Tier) -> Vec<SunFacing> {
    let span: i8 = tier.pick(4, 12);
    let mut v = vec![];
    for zone in 0..32u8 {
        for row in 0..16u8 {
            for dt in -span..=span {
                for da in -span..=span {
                    v.push(SunFacing { zone, row, dt, da });
                }
            }
        }
    }
    v
}

fn check_history(h: &CaseH, ops: &Vec<Op>) -> Verdict {
    let out = worker_call("C14.history", ops, Duration::from_secs(120));
    let has_window = ops.iter().any(|o| matches!(o, Op::AddWindow { .. }));
    if has_window {
        h.nontrivial(fp(ops));
    }
    h.evals(ops.len() as u64);
    h.class(&format!("len/{}", (ops.len() / 5) * 5));
    let v = verdict_of(h, out, &format!("editor history of {} steps", ops.len()), false);
    h.sample(|| json!({"ops": ops}));
    v
}

pub fn run(args: &Args) -> ! {
    let ctx = Ctx::new("C14", "exploration", args);
    ctx.rule("mutants: shipped models and generated models (closed and open plans) with 0-3 structural edits of the JSON tree (delete key / array item, empty / duplicate / truncate array, redirect an id to another, a fresh or the nil id, zero / negate a number, resize a numeric array to 0/1/23/25 values, empty the period list of a yearly schedule - the last one keeps a closed model sane, so its numbers must stay finite), trees that Model::from_json rejects are counted; histories: 1-25 editor operations from Model::default() with the indicators recomputed after every step; louvres: shipped and generated models with 2-90 equal slats (same extent along the wall, stacked at a fixed spacing: coinciding centres on the longest axis of the group, below, at and above the leaf size of the acceleration structure) in front of one of their windows; sun_facing (exhaustive): for every zone and every hour of its July design day a roof window whose plane faces the sun of that hour exactly, and every tilt / azimuth offset of up to 0.004 (thorough 0.012) degrees in steps of 0.001: the indicators are finite and the obstruction factor lies in [0, 1]. long_calendars (exhaustive): every shipped model with the last period of its first load calendar set to 366, 3 650, 100 000 and 400 000 000 days (a model that loads from JSON may declare any u32): a result is required (120 s watchdog, 3 GiB address space). Every computation runs in a worker process (60 s watchdog): panic, hang or process death is a violation; after a panic the same process must still compute a known good model to its baseline; unedited closed models must give only finite numbers and an indicators JSON that loads back to an equal value. Non-trivial: at least one edit applied; history with a window.");
    ctx.assume("finiteness is read from the Debug text of EnergyIndicators (every f32, also inside Option); 'closed' = generated closed plan or shipped model, unedited");
    ctx.replay_regressions(replay_one);
    ctx.run_prop("mutants", ctx.tier().pick(40_000, 1_000_000), mut_case, check_mutant);
    ctx.run_prop("histories", ctx.tier().pick(2_000, 30_000), || proptest::collection::vec(op(), 1..=25), check_history);
    ctx.run_prop("louvres", ctx.tier().pick(1_200, 40_000), louvre_case, check_louvres);
    ctx.run_enum("sun_facing", &sun_facing_cases(ctx.tier()), true, check_sun_facing);
    ctx.run_enum("long_calendars", &long_calendar_cases(), true, check_long_calendar);
    ctx.require_class("long_calendars/days/100000/ok");
    ctx.require_class("sun_facing/exactly-facing");
    ctx.require_class("louvres/slats/>30");
    ctx.require_class("louvres/outcome/ok");
    for c in ["mutants/outcome/ok", "mutants/outcome/rejected", "mutants/sane-model-checked", "mutants/sane-model-with-an-empty-calendar", "histories/outcome/ok"] {
        ctx.require_class(c);
    }
    if ctx.tier() == crate::engine::Tier::Thorough {
        fuzz_campaign(&ctx);
    }
    ctx.finish()
}

/// thorough only: coverage-guided byte-level mutation of model JSON texts (any number of simultaneous edits)
fn fuzz_campaign(ctx: &Ctx) {
    use crate::fuzz::{self, Campaign};
    ctx.rule("fuzz:model_json (thorough): libFuzzer campaign (16 processes x fixed -runs, -seed from the seed, fresh corpus seeded with generated closed and open models and the smallest shipped model; dictionary = identifiers of a shipped model) over Model::from_json -> energy_indicators -> as_json; a panic, a hang (60 s, confirmed alone at 180 s) or process death is a violation; every 64th computed model the process recomputes cubo.json and must get its baseline. Non-trivial: the text loaded as a model and the indicators were computed.");
    if !fuzz::build(ctx) {
        return;
    }
    let (seeds, dict) = fuzz::model_json_corpus(ctx.seed(), "C14/fuzz-seeds");
    fuzz::run(
        ctx,
        &Campaign {
            sub: "fuzz:model_json",
            target: "model_json",
            sig_prefix: "C14:indicators:",
            procs: 16,
            runs_per_proc: 150_000,
            max_len: 150_000,
            only_ascii: true,
            seeds,
            dict,
            timeout_s: 60,
            nontrivial_classes: &["loaded"],
        },
    );
    for c in ["fuzz:model_json/loaded", "fuzz:model_json/rejected", "fuzz:model_json/good-model-recheck"] {
        ctx.require_class(c);
    }
}

pub fn replay_one(ctx: &Ctx, doc: &ReplayDoc) {
    use crate::engine::replay_case;
    match doc.sub.as_str() {
        "mutants" => replay_case::<MutCase>(ctx, &doc.sub, &doc.case, check_mutant),
        "histories" => replay_case::<Vec<Op>>(ctx, &doc.sub, &doc.case, check_history),
        "louvres" => replay_case::<LouvreCase>(ctx, &doc.sub, &doc.case, check_louvres),
        "sun_facing" => replay_case::<SunFacing>(ctx, &doc.sub, &doc.case, check_sun_facing),
        "long_calendars" => replay_case::<LongCal>(ctx, &doc.sub, &doc.case, check_long_calendar),
        s => ctx.infra_error(format!("unknown sub {}", s)),
    }
}

#[allow(dead_code)]
fn _b(_: BoundaryType) {}
