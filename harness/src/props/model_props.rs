//! C04 (JSON format), C07 (window constructions), C15 (checker), C16 (purge) on generated models.

use std::collections::{BTreeMap, HashSet};

use proptest::prelude::*;
use serde::{Deserialize, Serialize};
use serde_json::{json, Map, Value};

use bemodel::{BoundaryType, ConsDb, Frame, Glass, MatProps, Model, SpaceType, ThermalBridgeKind, Uuid, WinCons};

use crate::engine::{catch, fp, Args, CaseH, Ctx, ReplayDoc, Verdict};
use crate::gen::geom::dec2;
use crate::gen::model::{self, broken_links, Params, Plan};
use crate::props::envelope_props::{indicators, mixed_plan, shipped_models};
use crate::util::close;
use crate::{vensure, vfail};

// =================================================================== C04

fn num(v: f32) -> Value {
    // the wire format prints the shortest decimal that reads back as the same f32
    serde_json::to_value(v).unwrap_or(Value::Null)
}
fn uid(u: Uuid) -> Value {
    Value::String(u.hyphenated().to_string())
}
fn put(m: &mut Map<String, Value>, k: &str, v: Value) {
    m.insert(k.to_string(), v);
}
fn put_name(m: &mut Map<String, Value>, name: &str) {
    if !name.is_empty() {
        put(m, "name", json!(name));
    }
}
fn put_opt_num(m: &mut Map<String, Value>, k: &str, v: Option<f32>) {
    if let Some(v) = v {
        put(m, k, num(v));
    }
}
fn put_opt_uid(m: &mut Map<String, Value>, k: &str, v: Option<Uuid>) {
    if let Some(v) = v {
        put(m, k, uid(v));
    }
}

fn geom_value(g: &bemodel::WallGeom) -> Value {
    let mut o = Map::new();
    put(&mut o, "tilt", num(g.tilt));
    put(&mut o, "azimuth", num(g.azimuth));
    if let Some(p) = g.position {
        put(&mut o, "position", json!([num(p.x), num(p.y), num(p.z)]));
    }
    if !g.polygon.is_empty() {
        put(&mut o, "polygon", Value::Array(g.polygon.iter().map(|p| json!([num(p.x), num(p.y)])).collect()));
    }
    Value::Object(o)
}

/// The documented wire format, written independently of serde's derive: field names, JSON types and
/// omit-when-default rules transcribed from the doc comments and the shipped files.
pub fn expected_value(m: &Model) -> Value {
    let mut root = Map::new();
    let mut meta = Map::new();
    put_name(&mut meta, &m.meta.name);
    put(&mut meta, "is_new_building", json!(m.meta.is_new_building));
    put(&mut meta, "is_dwelling", json!(m.meta.is_dwelling));
    put(&mut meta, "num_dwellings", json!(m.meta.num_dwellings));
    put(&mut meta, "climate", json!(format!("{}", m.meta.climate)));
    put_opt_num(&mut meta, "global_ventilation_l_s", m.meta.global_ventilation_l_s);
    put_opt_num(&mut meta, "n50_test_ach", m.meta.n50_test_ach);
    if m.meta.d_perim_insulation != 0.0 {
        put(&mut meta, "d_perim_insulation", num(m.meta.d_perim_insulation));
    }
    if m.meta.rn_perim_insulation != 0.0 {
        put(&mut meta, "rn_perim_insulation", num(m.meta.rn_perim_insulation));
    }
    put(&mut root, "meta", Value::Object(meta));
    if !m.spaces.is_empty() {
        let v = m
            .spaces
            .iter()
            .map(|s| {
                let mut o = Map::new();
                put(&mut o, "id", uid(s.id));
                put_name(&mut o, &s.name);
                if s.multiplier != 1.0 {
                    put(&mut o, "multiplier", num(s.multiplier));
                }
                if s.kind != SpaceType::CONDITIONED {
                    put(&mut o, "kind", json!(format!("{}", s.kind)));
                }
                if !s.inside_tenv {
                    put(&mut o, "inside_tenv", json!(false));
                }
                put(&mut o, "height", num(s.height));
                if s.z != 0.0 {
                    put(&mut o, "z", num(s.z));
                }
                put(&mut o, "loads", s.loads.map(uid).unwrap_or(Value::Null));
                put(&mut o, "thermostat", s.thermostat.map(uid).unwrap_or(Value::Null));
                put_opt_num(&mut o, "n_v", s.n_v);
                put_opt_num(&mut o, "illuminance", s.illuminance);
                Value::Object(o)
            })
            .collect();
        put(&mut root, "spaces", Value::Array(v));
    }
    if !m.walls.is_empty() {
        let v = m
            .walls
            .iter()
            .map(|w| {
                let mut o = Map::new();
                put(&mut o, "id", uid(w.id));
                put_name(&mut o, &w.name);
                put(&mut o, "bounds", json!(format!("{}", w.bounds)));
                put(&mut o, "cons", uid(w.cons));
                put(&mut o, "space", uid(w.space));
                put_opt_uid(&mut o, "next_to", w.next_to);
                put(&mut o, "geometry", geom_value(&w.geometry));
                Value::Object(o)
            })
            .collect();
        put(&mut root, "walls", Value::Array(v));
    }
    if !m.windows.is_empty() {
        let v = m
            .windows
            .iter()
            .map(|w| {
                let mut o = Map::new();
                put(&mut o, "id", uid(w.id));
                put_name(&mut o, &w.name);
                put(&mut o, "cons", uid(w.cons));
                put(&mut o, "wall", uid(w.wall));
                let mut g = Map::new();
                if let Some(p) = w.geometry.position {
                    put(&mut g, "position", json!([num(p.x), num(p.y)]));
                }
                put(&mut g, "height", num(w.geometry.height));
                put(&mut g, "width", num(w.geometry.width));
                put(&mut g, "setback", num(w.geometry.setback));
                put(&mut o, "geometry", Value::Object(g));
                Value::Object(o)
            })
            .collect();
        put(&mut root, "windows", Value::Array(v));
    }
    if !m.thermal_bridges.is_empty() {
        let v = m
            .thermal_bridges
            .iter()
            .map(|t| {
                let mut o = Map::new();
                put(&mut o, "id", uid(t.id));
                put_name(&mut o, &t.name);
                if t.kind != ThermalBridgeKind::GENERIC {
                    put(&mut o, "kind", json!(format!("{:?}", t.kind)));
                }
                if t.l != 0.0 {
                    put(&mut o, "l", num(t.l));
                }
                if t.psi != 0.0 {
                    put(&mut o, "psi", num(t.psi));
                }
                Value::Object(o)
            })
            .collect();
        put(&mut root, "thermal_bridges", Value::Array(v));
    }
    if !m.shades.is_empty() {
        let v = m
            .shades
            .iter()
            .map(|s| {
                let mut o = Map::new();
                put(&mut o, "id", uid(s.id));
                put_name(&mut o, &s.name);
                put(&mut o, "geometry", geom_value(&s.geometry));
                Value::Object(o)
            })
            .collect();
        put(&mut root, "shades", Value::Array(v));
    }
    let c = &m.cons;
    if !(c.wallcons.is_empty() && c.wincons.is_empty() && c.materials.is_empty() && c.glasses.is_empty() && c.frames.is_empty()) {
        let mut co = Map::new();
        if !c.wallcons.is_empty() {
            let v = c
                .wallcons
                .iter()
                .map(|w| {
                    let mut o = Map::new();
                    put(&mut o, "id", uid(w.id));
                    put_name(&mut o, &w.name);
                    if !w.layers.is_empty() {
                        put(&mut o, "layers", Value::Array(w.layers.iter().map(|l| json!({"material": uid(l.material), "e": num(l.e)})).collect()));
                    }
                    put(&mut o, "absorptance", num(w.absorptance));
                    Value::Object(o)
                })
                .collect();
            put(&mut co, "wallcons", Value::Array(v));
        }
        if !c.wincons.is_empty() {
            let v = c
                .wincons
                .iter()
                .map(|w| {
                    let mut o = Map::new();
                    put(&mut o, "id", uid(w.id));
                    put_name(&mut o, &w.name);
                    put(&mut o, "glass", uid(w.glass));
                    put(&mut o, "frame", uid(w.frame));
                    put(&mut o, "f_f", num(w.f_f));
                    put(&mut o, "delta_u", num(w.delta_u));
                    put_opt_num(&mut o, "g_glshwi", w.g_glshwi);
                    put(&mut o, "c_100", num(w.c_100));
                    Value::Object(o)
                })
                .collect();
            put(&mut co, "wincons", Value::Array(v));
        }
        if !c.materials.is_empty() {
            let v = c
                .materials
                .iter()
                .map(|w| {
                    let mut o = Map::new();
                    put(&mut o, "id", uid(w.id));
                    put_name(&mut o, &w.name);
                    match w.properties {
                        MatProps::Detailed {
                            conductivity,
                            density,
                            specific_heat,
                            vapour_diff,
                        } => {
                            put(&mut o, "conductivity", num(conductivity));
                            put(&mut o, "density", num(density));
                            put(&mut o, "specific_heat", num(specific_heat));
                            put_opt_num(&mut o, "vapour_diff", vapour_diff);
                        }
                        MatProps::Resistance { resistance, vapour_diff } => {
                            put(&mut o, "resistance", num(resistance));
                            put_opt_num(&mut o, "vapour_diff", vapour_diff);
                        }
                    }
                    Value::Object(o)
                })
                .collect();
            put(&mut co, "materials", Value::Array(v));
        }
        if !c.glasses.is_empty() {
            let v = c
                .glasses
                .iter()
                .map(|w| {
                    let mut o = Map::new();
                    put(&mut o, "id", uid(w.id));
                    put_name(&mut o, &w.name);
                    put(&mut o, "u_value", num(w.u_value));
                    put(&mut o, "g_gln", num(w.g_gln));
                    Value::Object(o)
                })
                .collect();
            put(&mut co, "glasses", Value::Array(v));
        }
        if !c.frames.is_empty() {
            let v = c
                .frames
                .iter()
                .map(|w| {
                    let mut o = Map::new();
                    put(&mut o, "id", uid(w.id));
                    put_name(&mut o, &w.name);
                    put(&mut o, "u_value", num(w.u_value));
                    put(&mut o, "absorptivity", num(w.absorptivity));
                    Value::Object(o)
                })
                .collect();
            put(&mut co, "frames", Value::Array(v));
        }
        put(&mut root, "cons", Value::Object(co));
    }
    let s = &m.schedules;
    if !(s.year.is_empty() && s.week.is_empty() && s.day.is_empty()) {
        let mut so = Map::new();
        let runs = |id: Uuid, name: &str, values: &Vec<(Uuid, u32)>| {
            let mut o = Map::new();
            put(&mut o, "id", uid(id));
            put_name(&mut o, name);
            if !values.is_empty() {
                put(&mut o, "values", Value::Array(values.iter().map(|(u, n)| json!([uid(*u), n])).collect()));
            }
            Value::Object(o)
        };
        if !s.year.is_empty() {
            put(&mut so, "year", Value::Array(s.year.iter().map(|y| runs(y.id, &y.name, &y.values)).collect()));
        }
        if !s.week.is_empty() {
            put(&mut so, "week", Value::Array(s.week.iter().map(|y| runs(y.id, &y.name, &y.values)).collect()));
        }
        if !s.day.is_empty() {
            let v = s
                .day
                .iter()
                .map(|d| {
                    let mut o = Map::new();
                    put(&mut o, "id", uid(d.id));
                    put_name(&mut o, &d.name);
                    if !d.values.is_empty() {
                        put(&mut o, "values", Value::Array(d.values.iter().map(|v| num(*v)).collect()));
                    }
                    Value::Object(o)
                })
                .collect();
            put(&mut so, "day", Value::Array(v));
        }
        put(&mut root, "schedules", Value::Object(so));
    }
    if !m.loads.is_empty() {
        let v = m
            .loads
            .iter()
            .map(|l| {
                let mut o = Map::new();
                put(&mut o, "id", uid(l.id));
                put_name(&mut o, &l.name);
                put(&mut o, "area_per_person", num(l.area_per_person));
                put_opt_uid(&mut o, "people_schedule", l.people_schedule);
                put(&mut o, "people_sensible", num(l.people_sensible));
                put(&mut o, "people_latent", num(l.people_latent));
                put(&mut o, "equipment", num(l.equipment));
                put_opt_uid(&mut o, "equipment_schedule", l.equipment_schedule);
                put(&mut o, "lighting", num(l.lighting));
                put_opt_uid(&mut o, "lighting_schedule", l.lighting_schedule);
                Value::Object(o)
            })
            .collect();
        put(&mut root, "loads", Value::Array(v));
    }
    if !m.thermostats.is_empty() {
        let v = m
            .thermostats
            .iter()
            .map(|t| {
                let mut o = Map::new();
                put(&mut o, "id", uid(t.id));
                put_name(&mut o, &t.name);
                put_opt_uid(&mut o, "temp_max", t.temp_max);
                put_opt_uid(&mut o, "temp_min", t.temp_min);
                Value::Object(o)
            })
            .collect();
        put(&mut root, "thermostats", Value::Array(v));
    }
    if !(m.overrides.walls.is_empty() && m.overrides.windows.is_empty()) {
        let mut oo = Map::new();
        let mut wm = Map::new();
        for (k, v) in &m.overrides.walls {
            let mut o = Map::new();
            put_opt_num(&mut o, "u_value", v.u_value);
            wm.insert(k.hyphenated().to_string(), Value::Object(o));
        }
        let mut nm = Map::new();
        for (k, v) in &m.overrides.windows {
            let mut o = Map::new();
            put_opt_num(&mut o, "u_value", v.u_value);
            put_opt_num(&mut o, "f_shobst", v.f_shobst);
            nm.insert(k.hyphenated().to_string(), Value::Object(o));
        }
        put(&mut oo, "walls", Value::Object(wm));
        put(&mut oo, "windows", Value::Object(nm));
        put(&mut root, "overrides", Value::Object(oo));
    }
    if let Some(extra) = &m.extra {
        let v = extra
            .iter()
            .map(|e| {
                json!({
                    "name": e.name,
                    "bounds": format!("{}", e.bounds),
                    "spacetype": format!("{}", e.spacetype),
                    "nextspace": e.nextspace.map(uid).unwrap_or(Value::Null),
                    "nextspacetype": e.nextspacetype.map(|t| json!(format!("{}", t))).unwrap_or(Value::Null),
                    "tilt": format!("{}", e.tilt),
                    "cons": uid(e.cons),
                    "u": num(e.u),
                    "computed_u": num(e.computed_u),
                })
            })
            .collect();
        put(&mut root, "extra", Value::Array(v));
    }
    Value::Object(root)
}

/// Structural equality of JSON values, numbers compared as f32 (the model's number type)
pub fn value_diff(a: &Value, b: &Value, path: &str) -> Option<String> {
    match (a, b) {
        (Value::Number(x), Value::Number(y)) => {
            let (fx, fy) = (x.as_f64().unwrap_or(f64::NAN) as f32, y.as_f64().unwrap_or(f64::NAN) as f32);
            if fx == fy {
                None
            } else {
                Some(format!("{}: {} vs {}", path, x, y))
            }
        }
        (Value::Object(x), Value::Object(y)) => {
            for (k, v) in x {
                match y.get(k) {
                    None => return Some(format!("{}.{}: missing on the right ({})", path, k, v)),
                    Some(w) => {
                        if let Some(d) = value_diff(v, w, &format!("{}.{}", path, k)) {
                            return Some(d);
                        }
                    }
                }
            }
            for k in y.keys() {
                if !x.contains_key(k) {
                    return Some(format!("{}.{}: missing on the left ({})", path, k, y[k]));
                }
            }
            None
        }
        (Value::Array(x), Value::Array(y)) => {
            if x.len() != y.len() {
                return Some(format!("{}: array length {} vs {}", path, x.len(), y.len()));
            }
            for (i, (v, w)) in x.iter().zip(y).enumerate() {
                if let Some(d) = value_diff(v, w, &format!("{}[{}]", path, i)) {
                    return Some(d);
                }
            }
            None
        }
        _ => {
            if a == b {
                None
            } else {
                Some(format!("{}: {} vs {}", path, a, b))
            }
        }
    }
}

/// -0.0 and 0.0 are the same value: normalise before comparing Debug texts
fn normalised(m: &Model) -> Model {
    let mut m = m.clone();
    for t in &mut m.thermal_bridges {
        if t.l == 0.0 {
            t.l = 0.0;
        }
    }
    m
}

/// every field, by value: the Debug text lists every field and prints each f32 with its shortest
/// round-tripping decimal, so equal texts <=> equal field values (independent of serde)
pub fn same_model(a: &Model, b: &Model) -> Result<(), String> {
    // -0.0 and 0.0 are the same value (omit rules compare with ==): every negative zero is read as 0.0
    let (da, db) = (no_negative_zero(&format!("{:?}", normalised(a))), no_negative_zero(&format!("{:?}", normalised(b))));
    if da == db {
        return Ok(());
    }
    let i = da.bytes().zip(db.bytes()).position(|(x, y)| x != y).unwrap_or(da.len().min(db.len()));
    let lo = i.saturating_sub(60);
    Err(format!("...{} | ...{}", &da[lo..(i + 60).min(da.len())], &db[lo..(i + 60).min(db.len())]))
}

fn no_negative_zero(d: &str) -> String {
    let b = d.as_bytes();
    let mut out: Vec<u8> = Vec::with_capacity(b.len());
    let mut i = 0;
    while i < b.len() {
        if b[i] == b'-' && b[i..].starts_with(b"-0.0") && !b.get(i + 4).map_or(false, |c| c.is_ascii_digit() || *c == b'e') && !(i > 0 && b[i - 1].is_ascii_alphanumeric()) {
            out.extend_from_slice(b"0.0");
            i += 4;
        } else {
            out.push(b[i]);
            i += 1;
        }
    }
    String::from_utf8_lossy(&out).to_string()
}

// ---- sentinel sweep: any leaf of the JSON tree set to a value that omit rules typically test for

/// texts that a careless text-level step (comment stripping, trimming, escaping) would damage
const STRING_SENTINELS: [&str; 8] = ["", "Lucernario 36\" // oeste", "a\\b \"q\" /* c */ // d", " con espacios ", "ñ ü º € \u{1F600}", "línea 1\nlínea 2\t# fin", "{\"id\": null}", "http://x/y?z=1&w=2"];
const SENTINELS: [f64; 10] = [0.0, 1.0, -1.0, 0.5, 50.0, 100.0, 0.01, 2.0, 90.0, 180.0];

fn leaf_paths(v: &Value, cur: String, out: &mut Vec<String>) {
    match v {
        Value::Object(o) => {
            for (k, c) in o {
                leaf_paths(c, format!("{}/{}", cur, k.replace('~', "~0").replace('/', "~1")), out);
            }
        }
        Value::Array(a) => {
            // the array itself is a leaf too (emptied, cut to one or two elements, lengthened)
            out.push(cur.clone());
            for (i, c) in a.iter().enumerate() {
                leaf_paths(c, format!("{}/{}", cur, i), out);
            }
        }
        _ => out.push(cur),
    }
}

fn sentinel_case() -> BoxedStrategy<(Plan, Vec<(u32, u8)>)> {
    (every_field_plan(), proptest::collection::vec((any::<u32>(), any::<u8>()), 1..=4)).boxed()
}

/// A generated model is serialised, 1-4 leaves of the JSON tree are overwritten (numbers by a sentinel such
/// as 0, 1, 50; flags flipped; strings emptied; arrays emptied), and whatever still loads as a model must
/// survive its own round trip field by field and serialise twice to the same text.
fn check_sentinels(h: &CaseH, c: &(Plan, Vec<(u32, u8)>)) -> Verdict {
    let mut m0 = model::build(&c.0);
    // the diagnostics list of the export tool: absent, empty, or with entries
    match c.1[0].1 % 4 {
        0 => m0.extra = Some(vec![]),
        1 => {
            m0.extra = Some(
                m0.walls
                    .iter()
                    .take(2)
                    .map(|w| bemodel::ExtraData {
                        name: w.name.clone(),
                        bounds: w.bounds,
                        spacetype: SpaceType::CONDITIONED,
                        nextspace: w.next_to,
                        nextspacetype: w.next_to.map(|_| SpaceType::UNINHABITED),
                        tilt: bemodel::Tilt::from(w.geometry.tilt),
                        cons: w.cons,
                        u: 0.5,
                        computed_u: 0.45,
                    })
                    .collect(),
            )
        }
        _ => {}
    }
    // the unedited model first (an empty diagnostics list is a value of its own)
    {
        let j = m0.as_json().unwrap_or_default();
        match Model::from_json(&j) {
            Ok(back) => {
                if let Err(d) = same_model(&m0, &back) {
                    vfail!("C04:sentinel:roundtrip-differs", "model with extra = {:?} entries does not survive its round trip: {}", m0.extra.as_ref().map(|e| e.len()), d);
                }
            }
            Err(e) => vfail!("C04:sentinel:load-error", "serialised model does not load back: {}", e),
        }
    }
    let mut v = match serde_json::to_value(&m0) {
        Ok(v) => v,
        Err(_) => return Verdict::Pass,
    };
    let mut paths = vec![];
    leaf_paths(&v, String::new(), &mut paths);
    if paths.is_empty() {
        return Verdict::Pass;
    }
    let mut touched = vec![];
    let mut special: Vec<&'static str> = vec![];
    for (pi, si) in &c.1 {
        let p = &paths[(*pi as usize) % paths.len()];
        if let Some(node) = v.pointer_mut(p) {
            match node {
                Value::Number(n) => {
                    let x = SENTINELS[(*si as usize) % SENTINELS.len()];
                    *node = if n.is_f64() { json!(x) } else { json!(x.abs() as u64) };
                }
                Value::Bool(b) => *b = !*b,
                Value::String(s) => {
                    if s.len() != 36 {
                        *s = STRING_SENTINELS[(*si as usize) % STRING_SENTINELS.len()].to_string();
                        if s.contains('"') && s.contains("//") {
                            special.push("string/quote-and-slashes");
                        }
                    }
                }
                Value::Array(a) => {
                    let before = a.len();
                    match *si % 4 {
                        0 => a.clear(),
                        1 => a.truncate(1),
                        2 => a.truncate(2),
                        _ => {
                            if let Some(first) = a.first().cloned() {
                                a.push(first);
                            }
                        }
                    }
                    if a.len() != before && (a.len() == 1 || a.len() == 2) {
                        special.push("array/cut-to-1-or-2");
                    }
                }
                _ => {}
            }
            // the key the leaf belongs to (arrays: the key of the array)
            let key = p.rsplit('/').find(|k| k.parse::<usize>().is_err()).unwrap_or("").to_string();
            touched.push(key);
        }
    }
    let m: Model = match serde_json::from_value(v) {
        Ok(m) => m,
        Err(_) => {
            h.class("rejected");
            return Verdict::Pass;
        }
    };
    h.class("loaded");
    for k in &special {
        h.class(k);
    }
    for k in &touched {
        h.class(&format!("field/{}", k));
    }
    let j1 = match m.as_json() {
        Ok(j) => j,
        Err(e) => vfail!("C04:sentinel:serialise-error", "a loaded model does not serialise: {}", e),
    };
    let m2 = match Model::from_json(&j1) {
        Ok(m) => m,
        Err(e) => vfail!("C04:sentinel:load-error", "serialised model does not load back after setting {:?}: {}", touched, e),
    };
    if let Err(d) = same_model(&m, &m2) {
        vfail!("C04:sentinel:roundtrip-differs", "after setting {:?} to a sentinel value the model does not survive its round trip: {}", touched, d);
    }
    let j2 = m2.as_json().unwrap_or_default();
    vensure!(j1 == j2, "C04:sentinel:not-idempotent", "after setting {:?}: second serialisation differs from the first", touched);
    h.nontrivial(fp(&(fp(&c.0), &c.1)));
    Verdict::Pass
}

fn every_field_plan() -> BoxedStrategy<Plan> {
    prop_oneof![
        3 => model::plan(Params { open: false, ..Params::default() }),
        2 => model::plan(Params { open: true, ..Params::default() }),
        1 => model::plan(Params { open: false, uses: false, shades: 0, max_spaces: 1, ..Params::default() }),
    ]
    .boxed()
}

fn check_json(h: &CaseH, pl: &Plan) -> Verdict {
    let m = model::build(pl);
    check_json_model(h, &m, true)
}

fn check_json_model(h: &CaseH, m: &Model, generated: bool) -> Verdict {
    let j1 = match catch(|| m.as_json()) {
        Ok(Ok(j)) => j,
        Ok(Err(e)) => vfail!("C04:serialise-error", "as_json fails: {}", e),
        Err(p) => return Verdict::from_panic("C04:as_json", &p),
    };
    let m2 = match catch(|| Model::from_json(&j1)) {
        Ok(Ok(m2)) => m2,
        Ok(Err(e)) => vfail!("C04:load-error", "a serialised model does not load back: {}", e),
        Err(p) => return Verdict::from_panic("C04:from_json", &p),
    };
    if let Err(d) = same_model(m, &m2) {
        vfail!("C04:roundtrip-differs", "serialise + load changes the model: {}", d);
    }
    let j2 = m2.as_json().unwrap_or_default();
    vensure!(j1 == j2, "C04:not-idempotent", "second serialisation differs from the first (lengths {} / {})", j1.len(), j2.len());
    let v1: Value = match serde_json::from_str(&j1) {
        Ok(v) => v,
        Err(e) => vfail!("C04:invalid-json", "as_json output is not JSON: {}", e),
    };
    // documented wire format (names, types, omit rules)
    let exp = expected_value(m);
    if let Some(d) = value_diff(&exp, &v1, "$") {
        vfail!("C04:wire-format", "serialised JSON differs from the documented format at {}", d);
    }
    // text written with defaults omitted loads to the same model
    let m3 = match Model::from_json(&serde_json::to_string(&exp).unwrap_or_default()) {
        Ok(m) => m,
        Err(e) => vfail!("C04:defaults-load-error", "JSON in the documented format (defaults omitted) does not load: {}", e),
    };
    if let Err(d) = same_model(m, &m3) {
        vfail!("C04:defaults-differ", "JSON with defaults omitted loads to a different model: {}", d);
    }
    if generated {
        // count default/omit pairs exercised on both sides
        let mut pairs = 0;
        let both = |a: bool, b: bool| (a && b) as u32;
        pairs += both(m.spaces.iter().any(|s| s.multiplier == 1.0), m.spaces.iter().any(|s| s.multiplier != 1.0));
        pairs += both(m.spaces.iter().any(|s| s.inside_tenv), m.spaces.iter().any(|s| !s.inside_tenv));
        pairs += both(m.spaces.iter().any(|s| s.kind == SpaceType::CONDITIONED), m.spaces.iter().any(|s| s.kind != SpaceType::CONDITIONED));
        pairs += both(m.spaces.iter().any(|s| s.z == 0.0), m.spaces.iter().any(|s| s.z != 0.0));
        pairs += both(m.spaces.iter().any(|s| s.n_v.is_none()), m.spaces.iter().any(|s| s.n_v.is_some()));
        pairs += both(m.spaces.iter().any(|s| s.loads.is_none()), m.spaces.iter().any(|s| s.loads.is_some()));
        pairs += both(m.walls.iter().any(|s| s.next_to.is_none()), m.walls.iter().any(|s| s.next_to.is_some()));
        pairs += both(m.walls.iter().any(|s| s.geometry.position.is_none()), m.walls.iter().any(|s| s.geometry.position.is_some()));
        pairs += both(m.windows.iter().any(|s| s.geometry.position.is_none()), m.windows.iter().any(|s| s.geometry.position.is_some()));
        pairs += both(m.thermal_bridges.iter().any(|s| s.l == 0.0), m.thermal_bridges.iter().any(|s| s.l != 0.0));
        pairs += both(m.thermal_bridges.iter().any(|s| s.kind == ThermalBridgeKind::GENERIC), m.thermal_bridges.iter().any(|s| s.kind != ThermalBridgeKind::GENERIC));
        pairs += both(m.cons.wincons.iter().any(|s| s.g_glshwi.is_none()), m.cons.wincons.iter().any(|s| s.g_glshwi.is_some()));
        pairs += both(m.cons.materials.iter().any(|s| matches!(s.properties, MatProps::Detailed { .. })), m.cons.materials.iter().any(|s| matches!(s.properties, MatProps::Resistance { .. })));
        pairs += both(m.cons.wallcons.iter().any(|s| s.layers.is_empty()), m.cons.wallcons.iter().any(|s| !s.layers.is_empty()));
        pairs += both(!m.overrides.walls.is_empty(), !m.overrides.windows.is_empty());
        pairs += both(m.loads.iter().any(|s| s.people_schedule.is_none()), m.loads.iter().any(|s| s.people_schedule.is_some()));
        pairs += both(m.meta.global_ventilation_l_s.is_some(), m.meta.n50_test_ach.is_some());
        pairs += (m.meta.d_perim_insulation != 0.0) as u32 + (m.meta.name.is_empty()) as u32;
        h.class(&format!("pairs/{}", (pairs / 3) * 3));
        if pairs >= 10 {
            h.nontrivial(fp(&(m.walls.len(), m.windows.len(), j1.len())));
        }
        if m.spaces.iter().any(|s| s.name.is_empty()) {
            h.class("names/empty");
        } else {
            h.class("names/given");
        }
        h.sample(|| json!({"json_bytes": j1.len(), "walls": m.walls.len(), "windows": m.windows.len(), "default_pairs_both_sides": pairs}));
    }
    Verdict::Pass
}

/// models with an `extra` list and raw f32 bit patterns
fn raw_numbers_case() -> BoxedStrategy<(Plan, Vec<u32>)> {
    (model::plan(Params { open: false, max_spaces: 2, ..Params::default() }), proptest::collection::vec(any::<u32>(), 8..40)).boxed()
}

fn check_raw(h: &CaseH, c: &(Plan, Vec<u32>)) -> Verdict {
    let mut m = model::build(&c.0);
    // overwrite numeric fields with arbitrary finite f32 bit patterns (shortest-representation round trips)
    let mut it = c.1.iter().map(|b| f32::from_bits(*b)).filter(|v| v.is_finite());
    for w in &mut m.walls {
        if let Some(v) = it.next() {
            w.geometry.azimuth = v;
        }
        if let Some(p) = w.geometry.polygon.get_mut(0) {
            if let Some(v) = it.next() {
                p.x = v;
            }
        }
    }
    for s in &mut m.spaces {
        if let Some(v) = it.next() {
            s.height = v;
        }
        if let Some(v) = it.next() {
            s.z = v;
        }
    }
    for t in &mut m.thermal_bridges {
        if let Some(v) = it.next() {
            t.psi = v;
        }
    }
    m.extra = Some(
        m.walls
            .iter()
            .take(2)
            .map(|w| bemodel::ExtraData {
                name: w.name.clone(),
                bounds: w.bounds,
                spacetype: SpaceType::UNINHABITED,
                nextspace: w.next_to,
                nextspacetype: w.next_to.map(|_| SpaceType::CONDITIONED),
                tilt: bemodel::Tilt::from(w.geometry.tilt),
                cons: w.cons,
                u: 0.25,
                computed_u: 0.3,
            })
            .collect(),
    );
    h.nontrivial(fp(&c.1));
    check_json_model(h, &m, false)
}

fn shipped_files() -> Vec<String> {
    crate::util::files_with_ext(std::path::Path::new("/repo/bemodel/tests/data"), &["json"])
        .into_iter()
        .map(|p| p.to_string_lossy().to_string())
        .collect()
}

fn check_shipped_file(h: &CaseH, path: &String) -> Verdict {
    let txt = std::fs::read_to_string(path).unwrap_or_default();
    let v0: Value = match serde_json::from_str(&txt) {
        Ok(v) => v,
        Err(e) => vfail!("C04:shipped:not-json", "{} is not JSON: {}", path, e),
    };
    let m = match Model::from_json(&txt) {
        Ok(m) => m,
        Err(e) => vfail!("C04:shipped:does-not-load", "{} does not load: {}", path, e),
    };
    let j = m.as_json().unwrap_or_default();
    let v1: Value = serde_json::from_str(&j).unwrap_or(Value::Null);
    if let Some(d) = value_diff(&v0, &v1, "$") {
        vfail!("C04:shipped:value-changes", "{}: load + serialise changes the JSON value at {}", path, d);
    }
    h.nontrivial(fp(path));
    let v = check_json_model(h, &m, false);
    h.sample(|| json!({"file": path, "bytes": txt.len()}));
    v
}

pub fn run_c04(args: &Args) -> ! {
    let ctx = Ctx::new("C04", "exploration", args);
    ctx.rule("generated models (closed/open/minimal plans: every optional present and absent, every defaulted field at and away from its default, both material variants, overrides, empty and non-empty names and collections), models with an `extra` list and arbitrary finite f32 bit patterns, generated models with 1-4 leaves of their JSON tree overwritten by sentinel values (0, 1, -1, 0.5, 50, 100 ...; flags flipped; strings and arrays emptied: whatever an omit rule might test for, on every field), the shipped model files; oracles: (1) load(serialise(m)) equals m field by field (Debug text of the normalised model, independent of serde), (2) second serialisation byte-identical, (3) serialised JSON equals an independently written encoder of the documented wire format (names, types, omit rules), (4) that encoder's text with defaults omitted loads to m, (5) shipped files: JSON value unchanged by load+serialise (numbers compared as f32). Non-trivial: >= 10 default/omit pairs exercised on both sides in one model.");
    ctx.assume("serde_json as a JSON reader/writer; f32 Debug prints a round-tripping decimal");
    ctx.replay_regressions(replay_one);
    ctx.run_enum("shipped_files", &shipped_files(), true, check_shipped_file);
    ctx.run_prop("generated", ctx.tier().pick(40_000, 400_000), every_field_plan, check_json);
    ctx.run_prop("raw_numbers", ctx.tier().pick(20_000, 200_000), raw_numbers_case, check_raw);
    ctx.run_prop("sentinels", ctx.tier().pick(60_000, 1_000_000), sentinel_case, check_sentinels);
    ctx.require_class("sentinels/loaded");
    ctx.require_class("sentinels/string/quote-and-slashes");
    ctx.require_class("sentinels/array/cut-to-1-or-2");
    ctx.require_class("generated/names/empty");
    ctx.require_class("generated/names/given");
    if ctx.tier() == crate::engine::Tier::Thorough {
        use crate::fuzz::{self, Campaign};
        ctx.rule("fuzz:model_roundtrip (thorough): libFuzzer campaign (16 processes x fixed -runs, JSON-tree custom mutator, corpus of generated pretty and compact model texts + the smallest shipped model) over texts the model generator cannot produce (any key order, omitted defaults, integers for floats, unknown keys): a text that loads as a model with finite numbers must serialise to a text that loads back to an equal model (Debug text) and serialises again identically. Non-trivial: the text loaded as a model.");
        if fuzz::build(&ctx) {
            let (seeds, dict) = fuzz::model_json_corpus(ctx.seed(), "C04/fuzz-seeds");
            fuzz::run(
                &ctx,
                &Campaign {
                    sub: "fuzz:model_roundtrip",
                    target: "model_roundtrip",
                    sig_prefix: "C04:fuzz:",
                    procs: 16,
                    runs_per_proc: 250_000,
                    max_len: 150_000,
                    only_ascii: true,
                    seeds,
                    dict,
                    timeout_s: 60,
                    nontrivial_classes: &["loaded"],
                },
            );
            ctx.require_class("fuzz:model_roundtrip/loaded");
        }
    }
    ctx.finish()
}

// =================================================================== C07

#[derive(Clone, Debug, Serialize, Deserialize)]
pub struct WinConsCase {
    pub f_f: f32,
    pub delta_u: f32,
    pub u_g: f32,
    pub u_f: f32,
    pub g_n: f32,
    pub g_sh: Option<f32>,
    /// 0 present, 1 nil, 2 dangling
    pub glass_ref: u8,
    pub frame_ref: u8,
    /// window has a construction at all
    pub has_cons: bool,
    pub zone: u8,
}

fn wincons_case() -> BoxedStrategy<WinConsCase> {
    (
        // frame fractions are usually whole percents; one in four has a third decimal
        prop_oneof![1 => Just(0.0f32), 1 => Just(1.0f32), 6 => dec2(0.0, 1.0), 3 => crate::gen::geom::dec3(0.0, 1.0)],
        prop_oneof![1 => Just(0.0f32), 3 => dec2(0.0, 50.0)],
        prop_oneof![3 => dec2(0.01, 7.0), 1 => crate::gen::geom::dec3(0.01, 7.0)],
        prop_oneof![3 => dec2(0.01, 7.0), 1 => crate::gen::geom::dec3(0.01, 7.0)],
        dec2(0.05, 0.95),
        prop_oneof![2 => Just(None), 2 => dec2(0.0, 1.0).prop_map(Some), 1 => Just(Some(0.0f32)), 1 => Just(Some(1.0f32)), 2 => (0u32..1000).prop_map(|v| Some(v as f32 / 1000.0))],
        prop_oneof![6 => Just(0u8), 1 => Just(1u8), 1 => Just(2u8)],
        prop_oneof![6 => Just(0u8), 1 => Just(1u8), 1 => Just(2u8)],
        prop_oneof![9 => Just(true), 1 => Just(false)],
        0u8..32,
    )
        .prop_map(|(f_f, delta_u, u_g, u_f, g_n, g_sh, glass_ref, frame_ref, has_cons, zone)| WinConsCase {
            f_f,
            delta_u,
            u_g,
            u_f,
            g_n,
            g_sh,
            glass_ref,
            frame_ref,
            has_cons,
            zone,
        })
        .boxed()
}

fn check_wincons(h: &CaseH, c: &WinConsCase) -> Verdict {
    let gid = model::uid(model::K_GLASS, 0, 3);
    let fid = model::uid(model::K_FRAME, 0, 3);
    let cid = model::uid(model::K_WINCONS, 0, 3);
    let refid = |r: u8, good: Uuid, k: usize| match r {
        0 => good,
        1 => Uuid::nil(),
        _ => model::uid(model::K_FRESH, k, 3),
    };
    let wc = WinCons {
        id: cid,
        name: "wc".into(),
        glass: refid(c.glass_ref, gid, 1),
        frame: refid(c.frame_ref, fid, 2),
        f_f: c.f_f,
        delta_u: c.delta_u,
        g_glshwi: c.g_sh,
        c_100: 27.0,
    };
    let db = ConsDb {
        wallcons: vec![],
        wincons: vec![wc.clone()],
        materials: vec![],
        glasses: vec![Glass {
            id: gid,
            name: "g".into(),
            u_value: c.u_g,
            g_gln: c.g_n,
        }],
        frames: vec![Frame {
            id: fid,
            name: "f".into(),
            u_value: c.u_f,
            absorptivity: 0.6,
        }],
    };
    let resolves = c.glass_ref == 0 && c.frame_ref == 0;
    let (ff, du, ug, uf) = (c.f_f as f64, c.delta_u as f64, c.u_g as f64, c.u_f as f64);
    let u_exact = (1.0 + du / 100.0) * (ff * uf + (1.0 - ff) * ug);
    let tol = 0.0051 + 2e-6 * u_exact.abs();
    let u_code = wc.u_value(&db);
    if resolves {
        let u = match u_code {
            Some(u) => u as f64,
            None => vfail!("C07:u:none-when-resolved", "glass and frame resolve but the construction has no U ({:?})", c),
        };
        vensure!((u - u_exact).abs() <= tol, "C07:u:formula", "U = {} but (1+dU/100)(Ff Uf + (1-Ff) Ug) = {:.5} ({:?})", u, u_exact, c);
        let (lo, hi) = ((1.0 + du / 100.0) * ug.min(uf), (1.0 + du / 100.0) * ug.max(uf));
        vensure!(u >= lo - tol && u <= hi + tol, "C07:u:outside-range", "U = {} outside [{:.4}, {:.4}] ({:?})", u, lo, hi, c);
    } else {
        h.class("missing-reference");
        vensure!(u_code.is_none(), "C07:u:some-when-missing", "glass or frame missing but U = {:?} ({:?})", u_code, c);
    }
    let g_exact = 0.90 * c.g_n as f64;
    match wc.g_glwi(&db) {
        Some(g) => {
            vensure!(c.glass_ref == 0, "C07:g:some-without-glass", "g_gl;wi = {} although the glazing is missing", g);
            vensure!((g as f64 - g_exact).abs() <= 0.0051, "C07:g_glwi", "g_gl;wi = {} but 0.90 x {} = {:.4}", g, c.g_n, g_exact);
        }
        None => vensure!(c.glass_ref != 0, "C07:g:none-with-glass", "g_gl;wi is None although the glazing resolves"),
    }
    let gsh = wc.g_glshwi(&db);
    match c.g_sh {
        Some(user) => {
            let g = gsh.map(|v| v as f64).unwrap_or(f64::NAN);
            vensure!((g - user as f64).abs() <= 0.0051, "C07:g_glshwi:user", "g_gl;sh;wi = {:?} but the user value is {}", gsh, user);
        }
        None => {
            vensure!(gsh == wc.g_glwi(&db), "C07:g_glshwi:fallback", "g_gl;sh;wi = {:?} without user value, g_gl;wi = {:?}", gsh, wc.g_glwi(&db));
        }
    }
    // downstream: one wall + one window model
    let sid = model::uid(model::K_SPACE, 0, 3);
    let wid = model::uid(model::K_WALL, 0, 3);
    let flid = model::uid(model::K_WALL, 1, 3);
    let winid = model::uid(model::K_WIN, 0, 3);
    let rect = |w: f32, hh: f32| vec![nalgebra::point![0.0, 0.0], nalgebra::point![w, 0.0], nalgebra::point![w, hh], nalgebra::point![0.0, hh]];
    let mut m = Model::default();
    m.meta.climate = model::zone(c.zone);
    m.cons = db.clone();
    m.spaces.push(bemodel::Space {
        id: sid,
        name: "s".into(),
        ..bemodel::Space::default()
    });
    m.walls.push(bemodel::Wall {
        id: flid,
        name: "floor".into(),
        bounds: BoundaryType::ADIABATIC,
        cons: Uuid::nil(),
        space: sid,
        next_to: None,
        geometry: bemodel::WallGeom {
            tilt: 180.0,
            azimuth: 0.0,
            position: None,
            polygon: rect(5.0, 4.0),
        },
    });
    m.walls.push(bemodel::Wall {
        id: wid,
        name: "w".into(),
        bounds: BoundaryType::EXTERIOR,
        cons: Uuid::nil(),
        space: sid,
        next_to: None,
        geometry: bemodel::WallGeom {
            tilt: 90.0,
            azimuth: 0.0,
            position: Some(nalgebra::point![0.0, 0.0, 0.0]),
            polygon: rect(5.0, 3.0),
        },
    });
    m.windows.push(bemodel::Window {
        id: winid,
        name: "v".into(),
        cons: if c.has_cons { cid } else { model::uid(model::K_FRESH, 9, 3) },
        wall: wid,
        geometry: bemodel::WinGeom {
            position: Some(nalgebra::point![1.0, 1.0]),
            height: 1.0,
            width: 2.0,
            setback: 0.0,
        },
    });
    let ind = match indicators(&m) {
        Ok(i) => i,
        Err(v) => return v,
    };
    let p = match ind.props.wincons.get(&cid) {
        Some(p) => p,
        None => vfail!("C07:props:missing", "construction missing from props.wincons"),
    };
    let g_wi_exp = if c.glass_ref == 0 { None } else { Some(0.77) };
    if let Some(e) = g_wi_exp {
        vensure!((p.g_glwi as f64 - e).abs() < 1e-6, "C07:default-0.77", "glazing missing: props g_glwi = {} (documented default 0.77)", p.g_glwi);
        // "to two decimals": within half a unit of the last digit of the user value
        let esh = c.g_sh.map(|v| v as f64);
        match esh {
            Some(e) => vensure!((p.g_glshwi as f64 - e).abs() <= 0.0051, "C07:default-user-wins", "glazing missing, user shading factor {}: props g_glshwi = {}", e, p.g_glshwi),
            None => vensure!((p.g_glshwi as f64 - 0.77).abs() < 1e-6, "C07:default-0.77", "glazing missing, no user value: props g_glshwi = {}", p.g_glshwi),
        }
    }
    vensure!(p.u_value == u_code, "C07:props:u", "props.wincons u_value {:?} != WinCons::u_value {:?}", p.u_value, u_code);
    // K: wall without construction counts 5.7; window counts its U or 5.7
    let a_wall = 15.0 - 2.0;
    let uw = if c.has_cons { u_code.map(|v| v as f64).unwrap_or(5.7) } else { 5.7 };
    let k_exp = (a_wall * 5.7 + 2.0 * uw) / 15.0;
    vensure!(close(ind.K_data.K as f64, k_exp, 1e-3, 2e-4), "C07:K-downstream", "K = {} expected {:.4} (window U {:.3}, 5.7 for the wall) ({:?})", ind.K_data.K, k_exp, uw, c);
    // q_sol;jul: g_gl;sh;wi and frame fraction downstream
    let (g_dn, ff_dn) = if c.has_cons { (p.g_glshwi as f64, c.f_f as f64) } else { (0.77, 0.20) };
    let hz = crate::props::envelope_props::july_irradiation(m.meta.climate, "S").unwrap_or(f64::NAN);
    let fsh = ind.props.windows.get(&winid).and_then(|w| w.f_shobst).unwrap_or(1.0) as f64;
    let q_exp = fsh * g_dn * (1.0 - ff_dn) * 2.0 * hz / 20.0;
    vensure!(close(ind.q_soljul_data.q_soljul as f64, q_exp, 1e-3, 3e-4), "C07:qsol-downstream", "q_sol;jul = {} expected {:.4} (g {:.3}, Ff {:.3}, H {:.2}, Fsh {:.2}) ({:?})", ind.q_soljul_data.q_soljul, q_exp, g_dn, ff_dn, hz, fsh, c);
    if !c.has_cons {
        h.class("window-without-construction");
    }
    if (c.f_f != 0.0 && c.f_f != 1.0 && c.u_g != c.u_f && c.delta_u > 0.0) || !resolves {
        h.nontrivial(fp(c));
    }
    h.sample(|| json!(c));
    Verdict::Pass
}

pub fn run_c07(args: &Args) -> ! {
    let ctx = Ctx::new("C07", "exploration", args);
    ctx.rule("window constructions with F_f in [0,1] (incl. 0 and 1), dU in [0,50], U_g/U_f in (0,7], g_n, optional shading factor (2 or 3 decimals), glass/frame reference present / nil / dangling, window with or without construction, in a one-wall one-window model over the 32 zones; oracle: the defining formulas in f64 with the two-decimal tolerance (0.0051), range property, documented defaults 0.77 / 0.20 / 5.7 checked through K and q_sol;jul of the one-window model computed by hand. Non-trivial: F_f not in {0,1}, U_g != U_f and dU > 0, or a missing reference.");
    ctx.replay_regressions(replay_one);
    ctx.run_prop("wincons", ctx.tier().pick(400_000, 4_000_000), wincons_case, check_wincons);
    ctx.require_class("wincons/missing-reference");
    ctx.require_class("wincons/window-without-construction");
    ctx.finish()
}

// =================================================================== C15

fn check_checker_model(h: &CaseH, m: &Model, with_indicators: bool) -> Verdict {
    let before = m.as_json().unwrap_or_default();
    let warnings = match catch(|| bemodel::check(m)) {
        Ok(w) => w,
        Err(p) => return Verdict::from_panic("C15:check", &p),
    };
    let after = m.as_json().unwrap_or_default();
    vensure!(before == after, "C15:model-modified", "check() changed the model");
    let mut expected: BTreeMap<Uuid, usize> = BTreeMap::new();
    let mut kinds: HashSet<&str> = HashSet::new();
    for (kind, owner, _) in broken_links(m) {
        if ["wall.space", "wall.cons", "wall.next_to", "window.wall", "window.cons"].contains(&kind) {
            *expected.entry(owner).or_insert(0) += 1;
            kinds.insert(kind);
        }
    }
    for tb in &m.thermal_bridges {
        if tb.l < 0.0 {
            *expected.entry(tb.id).or_insert(0) += 1;
            kinds.insert("bridge");
        }
    }
    let mut got: BTreeMap<Uuid, usize> = BTreeMap::new();
    for w in &warnings {
        vensure!(w.level == bemodel::WarningLevel::WARNING, "C15:level", "warning with level {} ({})", w.level, w.msg);
        match w.id {
            Some(id) => *got.entry(id).or_insert(0) += 1,
            None => vfail!("C15:warning-without-id", "warning without element id: {}", w.msg),
        }
    }
    if got != expected {
        let missing: Vec<_> = expected.iter().filter(|(k, v)| got.get(*k) != Some(*v)).map(|(k, v)| (k.to_string(), *v, got.get(k).copied().unwrap_or(0))).take(3).collect();
        let extra: Vec<_> = got.iter().filter(|(k, _)| !expected.contains_key(*k)).map(|(k, v)| (k.to_string(), *v)).take(3).collect();
        let named = |id: &str| {
            m.walls
                .iter()
                .map(|w| (w.id, "wall"))
                .chain(m.windows.iter().map(|w| (w.id, "window")))
                .chain(m.thermal_bridges.iter().map(|w| (w.id, "bridge")))
                .find(|(i, _)| i.to_string() == id)
                .map(|x| x.1)
                .unwrap_or("?")
        };
        vfail!(
            "C15:warnings-differ",
            "warnings per element differ from the broken links: expected/got mismatches {:?}, unexpected {:?} (first: {})",
            missing,
            extra,
            missing.first().map(|x| named(&x.0)).or(extra.first().map(|x| named(&x.0))).unwrap_or("-")
        );
    }
    if with_indicators {
        let ind = match indicators(m) {
            Ok(i) => i,
            Err(v) => return v,
        };
        let a: Vec<_> = ind.warnings.iter().map(|w| (w.level, w.id, w.msg.clone())).collect();
        let b: Vec<_> = warnings.iter().map(|w| (w.level, w.id, w.msg.clone())).collect();
        vensure!(a == b, "C15:indicator-warnings", "warnings returned with the indicators ({}) are not the checker's ({})", a.len(), b.len());
        h.class("with-indicators");
    }
    if kinds.len() >= 2 || expected.values().any(|v| *v >= 2) {
        h.nontrivial(fp(&(m.walls.len(), expected.len(), warnings.len(), before.len())));
    }
    if expected.is_empty() {
        h.class("clean");
    }
    for k in kinds {
        h.class(&format!("broken/{}", k));
    }
    if m.thermal_bridges.iter().any(|t| t.l == 0.0 && t.l.is_sign_negative()) {
        h.class("bridge-negative-zero");
    }
    Verdict::Pass
}

fn check_checker(h: &CaseH, c: &(Plan, bool)) -> Verdict {
    let m = model::build(&c.0);
    let v = check_checker_model(h, &m, c.1);
    h.sample(|| json!({"walls": m.walls.len(), "windows": m.windows.len(), "breaks": c.0.breaks, "negative_bridges": m.thermal_bridges.iter().filter(|t| t.l < 0.0).count()}));
    v
}

fn checker_case() -> BoxedStrategy<(Plan, bool)> {
    (prop_oneof![1 => model::plan(Params { open: false, shades: 0, ..Params::default() }), 3 => model::plan(Params { open: true, shades: 0, ..Params::default() })], prop_oneof![1 => Just(true), 15 => Just(false)]).boxed()
}

pub fn run_c15(args: &Args) -> ! {
    let ctx = Ctx::new("C15", "exploration", args);
    ctx.rule("generated models with 0-4 links redirected to fresh or nil ids (wall.space, wall.cons, wall.next_to, window.wall, window.cons and, as decoys that must NOT be reported, layer/glass/frame/loads/schedule links), bridge lengths incl. 0, -0.0 and negatives, shipped models; oracle: multiset of element ids with one entry per broken link (membership computed by the harness) plus one per bridge with L < 0 must equal the multiset of warning ids; level WARNING; model JSON unchanged; indicator warnings identical to check(). Non-trivial: >= 2 kinds of broken link or an element with two broken links.");
    ctx.replay_regressions(replay_one);
    let real = shipped_models();
    ctx.run_enum("shipped", &real.iter().map(|(n, _)| n.clone()).collect::<Vec<_>>(), true, |h, name| {
        let m = &real.iter().find(|(n, _)| n == name).unwrap().1;
        h.nontrivial(fp(name));
        check_checker_model(h, m, true)
    });
    ctx.run_prop("generated", ctx.tier().pick(200_000, 2_000_000), checker_case, check_checker);
    for c in ["generated/clean", "generated/broken/wall.space", "generated/broken/wall.cons", "generated/broken/wall.next_to", "generated/broken/window.wall", "generated/broken/window.cons", "generated/broken/bridge", "generated/bridge-negative-zero", "generated/with-indicators"] {
        ctx.require_class(c);
    }
    ctx.finish()
}

// =================================================================== C16

fn is_subsequence<T: PartialEq>(sub: &[T], full: &[T]) -> bool {
    let mut it = full.iter();
    sub.iter().all(|s| it.any(|f| f == s))
}

fn check_purge_model(h: &CaseH, m: &Model, with_indicators: bool) -> Verdict {
    let mut p = m.clone();
    if let Err(pn) = catch(|| {
        bemodel::purge_unused(&mut p);
    }) {
        return Verdict::from_panic("C16:purge", &pn);
    }
    // reachability, computed on the original model
    let spaces_used: HashSet<Uuid> = m.walls.iter().flat_map(|w| [Some(w.space), w.next_to]).flatten().collect();
    let keep_spaces: Vec<Uuid> = m.spaces.iter().filter(|s| spaces_used.contains(&s.id)).map(|s| s.id).collect();
    let keep_tbs: Vec<Uuid> = m.thermal_bridges.iter().filter(|t| t.l != 0.0).map(|t| t.id).collect();
    let wc_used: HashSet<Uuid> = m.walls.iter().map(|w| w.cons).collect();
    let keep_wallcons: Vec<Uuid> = m.cons.wallcons.iter().filter(|c| wc_used.contains(&c.id)).map(|c| c.id).collect();
    let nc_used: HashSet<Uuid> = m.windows.iter().map(|w| w.cons).collect();
    let keep_wincons: Vec<Uuid> = m.cons.wincons.iter().filter(|c| nc_used.contains(&c.id)).map(|c| c.id).collect();
    let mats_used: HashSet<Uuid> = m.cons.wallcons.iter().filter(|c| wc_used.contains(&c.id)).flat_map(|c| c.layers.iter().map(|l| l.material)).collect();
    let keep_mats: Vec<Uuid> = m.cons.materials.iter().filter(|c| mats_used.contains(&c.id)).map(|c| c.id).collect();
    let gl_used: HashSet<Uuid> = m.cons.wincons.iter().filter(|c| nc_used.contains(&c.id)).map(|c| c.glass).collect();
    let fr_used: HashSet<Uuid> = m.cons.wincons.iter().filter(|c| nc_used.contains(&c.id)).map(|c| c.frame).collect();
    let keep_glasses: Vec<Uuid> = m.cons.glasses.iter().filter(|c| gl_used.contains(&c.id)).map(|c| c.id).collect();
    let keep_frames: Vec<Uuid> = m.cons.frames.iter().filter(|c| fr_used.contains(&c.id)).map(|c| c.id).collect();
    let kept_spaces: Vec<&bemodel::Space> = m.spaces.iter().filter(|s| spaces_used.contains(&s.id)).collect();
    let loads_used: HashSet<Uuid> = kept_spaces.iter().filter_map(|s| s.loads).collect();
    let th_used: HashSet<Uuid> = kept_spaces.iter().filter_map(|s| s.thermostat).collect();
    let keep_loads: Vec<Uuid> = m.loads.iter().filter(|l| loads_used.contains(&l.id)).map(|l| l.id).collect();
    let keep_th: Vec<Uuid> = m.thermostats.iter().filter(|l| th_used.contains(&l.id)).map(|l| l.id).collect();
    let years_used: HashSet<Uuid> = m
        .loads
        .iter()
        .filter(|l| loads_used.contains(&l.id))
        .flat_map(|l| [l.people_schedule, l.equipment_schedule, l.lighting_schedule])
        .chain(m.thermostats.iter().filter(|l| th_used.contains(&l.id)).flat_map(|t| [t.temp_max, t.temp_min, None]))
        .flatten()
        .collect();
    let keep_years: Vec<Uuid> = m.schedules.year.iter().filter(|y| years_used.contains(&y.id)).map(|y| y.id).collect();
    let weeks_used: HashSet<Uuid> = m.schedules.year.iter().filter(|y| years_used.contains(&y.id)).flat_map(|y| y.values.iter().map(|v| v.0)).collect();
    let keep_weeks: Vec<Uuid> = m.schedules.week.iter().filter(|y| weeks_used.contains(&y.id)).map(|y| y.id).collect();
    let days_used: HashSet<Uuid> = m.schedules.week.iter().filter(|y| weeks_used.contains(&y.id)).flat_map(|y| y.values.iter().map(|v| v.0)).collect();
    let keep_days: Vec<Uuid> = m.schedules.day.iter().filter(|y| days_used.contains(&y.id)).map(|y| y.id).collect();

    let ids = |v: Vec<Uuid>| v;
    let mut removed_kinds = 0;
    let groups: Vec<(&str, Vec<Uuid>, Vec<Uuid>, usize)> = vec![
        ("spaces", ids(p.spaces.iter().map(|x| x.id).collect()), keep_spaces, m.spaces.len()),
        ("thermal_bridges", ids(p.thermal_bridges.iter().map(|x| x.id).collect()), keep_tbs, m.thermal_bridges.len()),
        ("wallcons", ids(p.cons.wallcons.iter().map(|x| x.id).collect()), keep_wallcons, m.cons.wallcons.len()),
        ("wincons", ids(p.cons.wincons.iter().map(|x| x.id).collect()), keep_wincons, m.cons.wincons.len()),
        ("materials", ids(p.cons.materials.iter().map(|x| x.id).collect()), keep_mats, m.cons.materials.len()),
        ("glasses", ids(p.cons.glasses.iter().map(|x| x.id).collect()), keep_glasses, m.cons.glasses.len()),
        ("frames", ids(p.cons.frames.iter().map(|x| x.id).collect()), keep_frames, m.cons.frames.len()),
        ("loads", ids(p.loads.iter().map(|x| x.id).collect()), keep_loads, m.loads.len()),
        ("thermostats", ids(p.thermostats.iter().map(|x| x.id).collect()), keep_th, m.thermostats.len()),
        ("year", ids(p.schedules.year.iter().map(|x| x.id).collect()), keep_years, m.schedules.year.len()),
        ("week", ids(p.schedules.week.iter().map(|x| x.id).collect()), keep_weeks, m.schedules.week.len()),
        ("day", ids(p.schedules.day.iter().map(|x| x.id).collect()), keep_days, m.schedules.day.len()),
    ];
    let mut chain = 0;
    for (name, got, expect, before) in &groups {
        if got != expect {
            let removed_wrongly: Vec<_> = expect.iter().filter(|e| !got.contains(e)).take(2).collect();
            let kept_wrongly: Vec<_> = got.iter().filter(|e| !expect.contains(e)).take(2).collect();
            let order = removed_wrongly.is_empty() && kept_wrongly.is_empty();
            vfail!(
                format!("C16:{}:{}", name, if order { "order-changed" } else if !removed_wrongly.is_empty() { "reachable-removed" } else { "unreachable-kept" }),
                "after purging, {} = {} items, reachability says {} (reachable but removed: {:?}; unreachable but kept: {:?})",
                name,
                got.len(),
                expect.len(),
                removed_wrongly,
                kept_wrongly
            );
        }
        if expect.len() < *before {
            removed_kinds += 1;
            h.class(&format!("removed/{}", name));
            if ["loads", "year", "week", "day"].contains(name) {
                chain += 1;
            }
        }
    }
    // walls, windows, shades untouched
    vensure!(p.walls.len() == m.walls.len() && p.windows.len() == m.windows.len() && p.shades.len() == m.shades.len(), "C16:elements-removed", "purge removed walls, windows or shades");
    // items that remain are unchanged (content) and in order: compare JSON of each remaining item
    let orig: Value = serde_json::to_value(m).unwrap_or(Value::Null);
    let purged: Value = serde_json::to_value(&p).unwrap_or(Value::Null);
    for path in [vec!["spaces"], vec!["thermal_bridges"], vec!["cons", "wallcons"], vec!["cons", "materials"], vec!["schedules", "day"], vec!["loads"]] {
        let get = |v: &Value| -> Vec<Value> {
            let mut cur = v;
            for k in &path {
                cur = &cur[*k];
            }
            cur.as_array().cloned().unwrap_or_default()
        };
        vensure!(is_subsequence(&get(&purged), &get(&orig)), "C16:content-changed", "remaining {:?} are not a subsequence of the original items", path);
    }
    // idempotent
    let mut p2 = p.clone();
    bemodel::purge_unused(&mut p2);
    vensure!(p2.as_json().unwrap_or_default() == p.as_json().unwrap_or_default(), "C16:not-idempotent", "purging twice differs from purging once");
    // no new broken link
    let before: HashSet<_> = broken_links(m).into_iter().collect();
    for b in broken_links(&p) {
        vensure!(before.contains(&b), "C16:new-broken-link", "purging introduced a broken link: {:?}", b);
    }
    if with_indicators {
        let (i1, i2) = match (indicators(m), indicators(&p)) {
            (Ok(a), Ok(b)) => (a, b),
            (Err(v), _) | (_, Err(v)) => return v,
        };
        for (n, a, b) in [
            ("A_ref", i1.area_ref, i2.area_ref),
            ("vol_net", i1.vol_env_net, i2.vol_env_net),
            ("vol_gross", i1.vol_env_gross, i2.vol_env_gross),
            ("K", i1.K_data.K, i2.K_data.K),
            ("n50", i1.n50_data.n50, i2.n50_data.n50),
            ("q_soljul", i1.q_soljul_data.q_soljul, i2.q_soljul_data.q_soljul),
        ] {
            vensure!(close(a as f64, b as f64, 1e-6, 1e-6), "C16:indicator-changed", "{} changes from {} to {} when purging", n, a, b);
        }
        h.class("with-indicators");
    }
    if removed_kinds >= 4 && chain >= 4 {
        // distinct models: the id sets identify the generated model (ids = f(kind, index, salt))
        let ids: Vec<Uuid> = m.spaces.iter().map(|s| s.id).chain(m.walls.iter().map(|w| w.id)).chain(m.schedules.day.iter().map(|d| d.id)).chain(p.spaces.iter().map(|s| s.id)).collect();
        h.nontrivial(fp(&ids));
    }
    h.class(&format!("removed-kinds/{}", removed_kinds.min(6)));
    Verdict::Pass
}

/// plan with decoys: extra spaces without walls are produced by dropping the walls of some spaces
fn purge_case() -> BoxedStrategy<(Plan, u8, bool)> {
    (prop_oneof![3 => model::plan(Params { open: false, shades: 1, ..Params::default() }), 1 => model::plan(Params { open: true, shades: 1, ..Params::default() })], any::<u8>(), prop_oneof![1 => Just(true), 7 => Just(false)]).boxed()
}

fn check_purge(h: &CaseH, c: &(Plan, u8, bool)) -> Verdict {
    let mut m = model::build(&c.0);
    // orphan the spaces selected by the bit mask: their walls move to space 0 (when it exists), so the
    // space and, if private, its loads -> yearly -> weekly -> daily chain become unreachable
    if m.spaces.len() > 1 {
        let first = m.spaces[0].id;
        let orphan: Vec<Uuid> = m.spaces.iter().enumerate().skip(1).filter(|(i, _)| c.1 & (1 << (i % 8)) != 0).map(|(_, s)| s.id).collect();
        let mut only_by_next_to = false;
        for (wi, w) in m.walls.iter_mut().enumerate() {
            if orphan.contains(&w.space) {
                w.space = first;
            }
            if w.next_to.map_or(false, |n| orphan.contains(&n)) {
                // every other such reference is kept: the orphaned space is then referred to only as the
                // adjacent space of somebody else's wall and must survive
                if wi % 2 == 0 || c.1 & 0x80 != 0 {
                    w.next_to = None;
                } else {
                    only_by_next_to = true;
                }
            }
        }
        if only_by_next_to {
            h.class("space-referenced-only-by-next_to");
        }
        if !orphan.is_empty() {
            h.class("orphaned-space");
        }
    }
    // ids are unique within each collection only: one model in four numbers its schedules per list, so that
    // year i, week i and day i carry the same id (what name-derived or counter ids give)
    if c.0.salt % 4 == 0 {
        let ny = m.schedules.year.len();
        for i in 0..m.schedules.week.len().min(ny) {
            let (old, new) = (m.schedules.week[i].id, m.schedules.year[i].id);
            if m.schedules.week.iter().any(|w| w.id == new) {
                continue;
            }
            m.schedules.week[i].id = new;
            for y in &mut m.schedules.year {
                for v in &mut y.values {
                    if v.0 == old {
                        v.0 = new;
                    }
                }
            }
        }
        for i in 0..m.schedules.day.len().min(ny) {
            let (old, new) = (m.schedules.day[i].id, m.schedules.year[i].id);
            if m.schedules.day.iter().any(|d| d.id == new) {
                continue;
            }
            m.schedules.day[i].id = new;
            for w in &mut m.schedules.week {
                for v in &mut w.values {
                    if v.0 == old {
                        v.0 = new;
                    }
                }
            }
        }
        if ny > 0 {
            h.class("ids-shared-across-schedule-levels");
        }
    }
    // a library numbered from zero: the first wall construction / window construction in use carries the all-zero id
    if c.0.salt % 5 == 1 {
        let zero = Uuid::nil();
        if let Some(old) = m.walls.first().map(|w| w.cons) {
            if !m.cons.wallcons.iter().any(|c| c.id == zero) {
                if let Some(i) = m.cons.wallcons.iter().position(|c| c.id == old) {
                    m.cons.wallcons[i].id = zero;
                    for w in m.walls.iter_mut().filter(|w| w.cons == old) {
                        w.cons = zero;
                    }
                    h.class("construction-in-use-with-the-all-zero-id");
                }
            }
        }
        if let Some(old) = m.windows.first().map(|w| w.cons) {
            if !m.cons.wincons.iter().any(|c| c.id == zero) {
                if let Some(i) = m.cons.wincons.iter().position(|c| c.id == old) {
                    m.cons.wincons[i].id = zero;
                    for w in m.windows.iter_mut().filter(|w| w.cons == old) {
                        w.cons = zero;
                    }
                    h.class("construction-in-use-with-the-all-zero-id");
                }
            }
        }
    }
    let v = check_purge_model(h, &m, c.2);
    h.sample(|| json!({"spaces": m.spaces.len(), "walls": m.walls.len(), "loads": m.loads.len(), "years": m.schedules.year.len(), "weeks": m.schedules.week.len(), "days": m.schedules.day.len(), "mask": c.1}));
    v
}

pub fn run_c16(args: &Args) -> ! {
    let ctx = Ctx::new("C16", "exploration", args);
    ctx.rule("generated models with unused items of every kind (libraries larger than what is used, spaces orphaned by a generated mask so that their private loads/schedule chains fall in the same call, bridges of length 0 / -0.0 / non-zero, shared constructions and schedules, one model in four with ids shared across the year / week / day lists), closed and open, plus shipped models; oracle: reachability computed by the harness on the original model must equal the purged collections exactly and in order; remaining items unchanged; purge o purge = purge; no new broken link; A_ref, volumes, K, n50, q_sol;jul unchanged. Non-trivial: items removed in >= 4 kinds including the whole loads/year/week/day chain.");
    ctx.replay_regressions(replay_one);
    let real = shipped_models();
    ctx.run_enum("shipped", &real.iter().map(|(n, _)| n.clone()).collect::<Vec<_>>(), true, |h, name| {
        let m = &real.iter().find(|(n, _)| n == name).unwrap().1;
        h.nontrivial(fp(name));
        check_purge_model(h, m, true)
    });
    ctx.run_prop("generated", ctx.tier().pick(100_000, 1_000_000), purge_case, check_purge);
    for c in ["generated/orphaned-space", "generated/space-referenced-only-by-next_to", "generated/removed/spaces", "generated/removed/thermal_bridges", "generated/removed/wallcons", "generated/removed/wincons", "generated/removed/materials", "generated/removed/glasses", "generated/removed/frames", "generated/removed/loads", "generated/removed/thermostats", "generated/removed/year", "generated/removed/week", "generated/removed/day", "generated/with-indicators", "generated/ids-shared-across-schedule-levels", "generated/construction-in-use-with-the-all-zero-id"] {
        ctx.require_class(c);
    }
    if ctx.tier() == crate::engine::Tier::Thorough {
        use crate::fuzz::{self, Campaign};
        ctx.rule("fuzz:model_purge (thorough): libFuzzer campaign (16 processes x fixed -runs, JSON-tree custom mutator, corpus of generated closed and open models + the smallest shipped model) over any text that loads as a model: purging does not panic, purging twice equals purging once, and the model checker reports no more warnings after purging than before (no item that a remaining item refers to is removed). Non-trivial: the text loaded as a model.");
        if fuzz::build(&ctx) {
            let (seeds, dict) = fuzz::model_json_corpus(ctx.seed(), "C16/fuzz-seeds");
            fuzz::run(
                &ctx,
                &Campaign {
                    sub: "fuzz:model_purge",
                    target: "model_purge",
                    sig_prefix: "C16:fuzz:",
                    procs: 16,
                    runs_per_proc: 250_000,
                    max_len: 150_000,
                    only_ascii: true,
                    seeds,
                    dict,
                    timeout_s: 60,
                    nontrivial_classes: &["loaded"],
                },
            );
            ctx.require_class("fuzz:model_purge/something-removed");
        }
    }
    ctx.finish()
}

pub fn replay_one(ctx: &Ctx, doc: &ReplayDoc) {
    use crate::engine::replay_case;
    match (doc.property.as_str(), doc.sub.as_str()) {
        ("C04", "generated") => replay_case::<Plan>(ctx, &doc.sub, &doc.case, check_json),
        ("C04", "raw_numbers") => replay_case::<(Plan, Vec<u32>)>(ctx, &doc.sub, &doc.case, check_raw),
        ("C04", "sentinels") => replay_case::<(Plan, Vec<(u32, u8)>)>(ctx, &doc.sub, &doc.case, check_sentinels),
        ("C04", "shipped_files") => replay_case::<String>(ctx, &doc.sub, &doc.case, check_shipped_file),
        ("C07", "wincons") => replay_case::<WinConsCase>(ctx, &doc.sub, &doc.case, check_wincons),
        ("C15", "generated") => replay_case::<(Plan, bool)>(ctx, &doc.sub, &doc.case, check_checker),
        ("C16", "generated") => replay_case::<(Plan, u8, bool)>(ctx, &doc.sub, &doc.case, check_purge),
        (p, "shipped") => {
            let name: String = serde_json::from_value(doc.case.clone()).unwrap_or_default();
            if let Some((_, m)) = shipped_models().into_iter().find(|(n, _)| *n == name) {
                replay_case::<String>(ctx, "shipped", &doc.case, |h, _| if p == "C15" { check_checker_model(h, &m, true) } else { check_purge_model(h, &m, true) });
            }
        }
        (p, s) => ctx.infra_error(format!("unknown replay target {} {}", p, s)),
    }
}

#[allow(dead_code)]
fn _unused(_: BoxedStrategy<Plan>) {
    let _ = mixed_plan;
}
