//! C17 — schedules: calendar partition, weekday alignment, occupancy hours and load means.

use std::collections::BTreeMap;

use proptest::prelude::*;
use serde::{Deserialize, Serialize};
use serde_json::json;

use bemodel::{Model, Schedule, ScheduleDay, ScheduleWeek, SchedulesDb, SpaceType, Uuid};

use crate::engine::{catch, fp, Args, CaseH, Ctx, ReplayDoc, Verdict};
use crate::gen::building::{self as gb, month_len, Bld};
use crate::gen::model::{self, composition, pick, Params, Plan};
use crate::oracle::envelope as env;
use crate::props::c03::convert_bdl_text;
use crate::props::envelope_props::{indicators, shipped_models};
use crate::{vensure, vfail};

// ------------------------------------------------------------------ (a) expansion law

#[derive(Clone, Debug, Serialize, Deserialize)]
pub struct ExpCase {
    /// weekly patterns as runs summing to 7: (day index, count)
    pub weeks: Vec<Vec<(u8, u32)>>,
    /// periods: (week index, days)
    pub periods: Vec<(u8, u32)>,
    pub ndays: u8,
}

fn exp_case() -> BoxedStrategy<ExpCase> {
    (
        1u8..=8,
        proptest::collection::vec(composition(7, 7).prop_flat_map(|parts| {
            let n = parts.len();
            proptest::collection::vec(any::<u8>(), n).prop_map(move |p| p.into_iter().zip(parts.clone()).collect::<Vec<(u8, u32)>>())
        }), 1..=4),
        proptest::collection::vec((any::<u8>(), prop_oneof![3 => 1u32..=60, 1 => 1u32..=400, 1 => Just(7u32), 1 => Just(365u32)]), 1..=12),
    )
        .prop_map(|(ndays, weeks, periods)| ExpCase { weeks, periods, ndays })
        .boxed()
}

fn check_expansion(h: &CaseH, c: &ExpCase) -> Verdict {
    let did = |i: u8| model::uid(model::K_DAY, (i % c.ndays) as usize, 17);
    let wid = |i: u8| model::uid(model::K_WEEK, i as usize % c.weeks.len(), 17);
    let yid = model::uid(model::K_YEAR, 0, 17);
    let db = SchedulesDb {
        day: (0..c.ndays).map(|i| ScheduleDay { id: did(i), name: format!("d{}", i), values: vec![i as f32; 24] }).collect(),
        week: c.weeks.iter().enumerate().map(|(i, w)| ScheduleWeek { id: wid(i as u8), name: format!("w{}", i), values: w.iter().map(|(d, n)| (did(*d), *n)).collect() }).collect(),
        year: vec![Schedule { id: yid, name: "y".into(), values: c.periods.iter().map(|(w, n)| (wid(*w), *n)).collect() }],
    };
    let got = match catch(|| db.get_year_as_day_sch(yid)) {
        Ok(g) => g,
        Err(p) => return Verdict::from_panic("C17:expansion", &p),
    };
    // oracle: day d takes slot d mod 7 of the weekly schedule of the period containing d
    let total: u32 = c.periods.iter().map(|p| p.1).sum();
    vensure!(got.len() as u32 == total, "C17:expansion:length", "periods add up to {} days, expansion has {}", total, got.len());
    let mut d = 0usize;
    for (w, n) in &c.periods {
        let week7: Vec<Uuid> = c.weeks[*w as usize % c.weeks.len()].iter().flat_map(|(dd, k)| std::iter::repeat(did(*dd)).take(*k as usize)).collect();
        for _ in 0..*n {
            let exp = week7[d % 7];
            vensure!(got[d] == exp, "C17:expansion:weekday-slot", "day {} (weekday slot {}) should use {} of the weekly schedule of its period, expansion has {}", d, d % 7, exp, got[d]);
            d += 1;
        }
    }
    // the values follow
    let vals = db.year_values(yid);
    vensure!(vals.len() == total as usize * 24, "C17:expansion:values-length", "year_values has {} values for {} days", vals.len(), total);
    let nz = db.year_values_is_not_zero(yid);
    vensure!(nz.len() == vals.len() && nz.iter().zip(&vals).all(|(b, v)| *b == (*v != 0.0)), "C17:expansion:not-zero-flags", "non-zero flags do not match the values");
    let off_week = c.periods.iter().take(c.periods.len().saturating_sub(1)).any(|p| p.1 % 7 != 0);
    if c.periods.len() >= 3 && off_week {
        h.nontrivial(fp(c));
    }
    h.sample(|| json!(c));
    Verdict::Pass
}

// ------------------------------------------------------------------ (b) HULC dates -> periods

fn day_number(m: u32, d: u32) -> u32 {
    (1..m).map(month_len).sum::<u32>() + d
}

fn schedule_text(dates: &[(u32, u32)], week_days: &[&str], day_values: &[f32]) -> String {
    let mut s = String::from("CAMBIO = SI\n \"DATOS GENERALES\" = GENERAL-DATA\n   ENGLISH = NO\n   ..\n");
    let vals: Vec<String> = day_values.iter().map(|v| format!("{}", v)).collect();
    s.push_str(&format!("\"D_A\" = DAY-SCHEDULE-PD\n   TYPE = \"FRACTION\"\n   VALUES = ( {})\n   ..\n", vals.join(", ")));
    s.push_str("\"D_B\" = DAY-SCHEDULE-PD\n   TYPE = \"FRACTION\"\n   VALUES = ( 0.5)\n   ..\n");
    let names: Vec<String> = week_days.iter().map(|n| format!("\"{}\"", n)).collect();
    s.push_str(&format!("\"W_A\" = WEEK-SCHEDULE-PD\n   TYPE = \"FRACTION\"\n   DAY-SCHEDULES = ( {})\n   ..\n", names.join(", ")));
    s.push_str("\"W_B\" = WEEK-SCHEDULE-PD\n   TYPE = \"FRACTION\"\n   DAY-SCHEDULES = ( \"D_B\")\n   ..\n");
    let months: Vec<String> = dates.iter().map(|d| d.0.to_string()).collect();
    let days: Vec<String> = dates.iter().map(|d| d.1.to_string()).collect();
    let weeks: Vec<String> = (0..dates.len()).map(|i| if i % 2 == 0 { "\"W_A\"".to_string() } else { "\"W_B\"".to_string() }).collect();
    s.push_str(&format!("\"Y_A\" = SCHEDULE-PD\n   TYPE = \"FRACTION\"\n   MONTH = ( {})\n   DAY = ( {})\n   WEEK-SCHEDULES = ( {})\n   ..\n", months.join(", "), days.join(", "), weeks.join(", ")));
    s
}

#[derive(Clone, Debug, Serialize, Deserialize)]
pub struct DateCase {
    pub dates: Vec<(u32, u32)>,
    pub week: Vec<u8>,
    pub single_value_day: bool,
}

fn check_dates(h: &CaseH, c: &DateCase) -> Verdict {
    let wd: Vec<&str> = c.week.iter().map(|k| if *k % 2 == 0 { "D_A" } else { "D_B" }).collect();
    let dv: Vec<f32> = if c.single_value_day { vec![0.25] } else { (0..24).map(|i| i as f32 / 100.0).collect() };
    let text = schedule_text(&c.dates, &wd, &dv);
    let m = match catch(|| convert_bdl_text(&text)) {
        Ok(Ok(x)) => x.1,
        Ok(Err(e)) => vfail!("C17:dates:not-converted", "schedules with end dates {:?} are rejected: {}", c.dates, e.lines().next().unwrap_or("")),
        Err(p) => return Verdict::from_panic("C17:dates", &p),
    };
    let y = match m.schedules.year.iter().find(|y| y.name == "Y_A") {
        Some(y) => y,
        None => vfail!("C17:dates:year-missing", "yearly schedule missing after conversion"),
    };
    let mut prev = 0;
    let exp: Vec<u32> = c.dates.iter().map(|(mm, dd)| { let n = day_number(*mm, *dd); let l = n - prev; prev = n; l }).collect();
    let got: Vec<u32> = y.values.iter().map(|v| v.1).collect();
    vensure!(got == exp, "C17:dates:partition", "end dates {:?} must give period lengths {:?} (sum {}), converted {:?}", c.dates, exp, exp.iter().sum::<u32>(), got);
    vensure!(got.iter().sum::<u32>() == 365, "C17:dates:not-365", "period lengths {:?} do not add up to 365", got);
    // periods alternate between the two weekly schedules, as written
    for (i, (wid, _)) in y.values.iter().enumerate() {
        let wname = m.schedules.week.iter().find(|w| w.id == *wid).map(|w| w.name.clone());
        vensure!(wname.as_deref() == Some(if i % 2 == 0 { "W_A" } else { "W_B" }), "C17:dates:week-of-period", "period {} uses weekly schedule {:?}", i, wname);
    }
    // weekly: runs expand to the names written; daily: 24 values
    let wa = match m.schedules.week.iter().find(|w| w.name == "W_A") {
        Some(w) => w,
        None => vfail!("C17:dates:week-missing", "weekly schedule missing"),
    };
    let expanded: Vec<String> = wa.to_day_sch().iter().map(|d| m.schedules.day.iter().find(|x| x.id == *d).map(|x| x.name.clone()).unwrap_or_default()).collect();
    let exp_week: Vec<String> = if wd.len() == 1 { vec![wd[0].to_string(); 7] } else { wd.iter().map(|s| s.to_string()).collect() };
    vensure!(expanded == exp_week, "C17:dates:week-runs", "weekly schedule written as {:?} expands to {:?}", wd, expanded);
    vensure!(wa.values.iter().map(|v| v.1).sum::<u32>() == 7, "C17:dates:week-not-7", "weekly runs {:?} do not cover 7 days", wa.values);
    let da = match m.schedules.day.iter().find(|d| d.name == "D_A") {
        Some(d) => d,
        None => vfail!("C17:dates:day-missing", "daily schedule missing"),
    };
    let exp_day: Vec<f32> = if dv.len() == 1 { vec![dv[0]; 24] } else { dv.clone() };
    vensure!(da.values == exp_day, "C17:dates:day-values", "daily schedule written as {:?} converts to {:?}", dv, da.values);
    // and the whole year expands to 365 days
    vensure!(m.schedules.get_year_as_day_sch(y.id).len() == 365, "C17:dates:expansion-365", "converted yearly schedule expands to {} days", m.schedules.get_year_as_day_sch(y.id).len());
    if c.dates.len() >= 3 {
        h.nontrivial(fp(c));
    } else {
        h.nontrivial(fp(&c.dates));
    }
    if c.dates.iter().any(|d| d.0 == 2) {
        h.class("end-date-in-february");
    }
    h.sample(|| json!(c));
    Verdict::Pass
}

fn date_lists() -> BoxedStrategy<DateCase> {
    (
        proptest::collection::vec(1u32..365, 0..11),
        prop_oneof![1 => proptest::collection::vec(any::<u8>(), 1), 3 => proptest::collection::vec(any::<u8>(), 7)],
        any::<bool>(),
    )
        .prop_map(|(mut v, week, single_value_day)| {
            v.sort_unstable();
            v.dedup();
            let mut dates: Vec<(u32, u32)> = v
                .into_iter()
                .map(|n| {
                    let (mut m, mut d) = (1, n);
                    while d > month_len(m) {
                        d -= month_len(m);
                        m += 1;
                    }
                    (m, d)
                })
                .collect();
            dates.push((12, 31));
            DateCase { dates, week, single_value_day }
        })
        .boxed()
}

/// generated buildings: schedules of the abstract building against the converted model
fn check_bld_schedules(h: &CaseH, b: &Bld) -> Verdict {
    let m = match catch(|| convert_bdl_text(&gb::print_bdl(b))) {
        Ok(Ok(x)) => x.1,
        Ok(Err(e)) => vfail!("C17:building:not-converted", "generated building rejected: {}", e.lines().next().unwrap_or("")),
        Err(p) => return Verdict::from_panic("C17:building", &p),
    };
    for y in &b.years {
        let my = match m.schedules.year.iter().find(|x| x.name == y.name) {
            Some(x) => x,
            None => vfail!("C17:building:year-missing", "yearly schedule {:?} missing", y.name),
        };
        let mut prev = 0;
        let exp: Vec<(String, u32)> = y.periods.iter().map(|(mm, dd, w)| { let n = day_number(*mm, *dd); let l = n - prev; prev = n; (b.weeks[pick(*w, b.weeks.len())].name.clone(), l) }).collect();
        let got: Vec<(String, u32)> = my.values.iter().map(|(wid, n)| (m.schedules.week.iter().find(|w| w.id == *wid).map(|w| w.name.clone()).unwrap_or_default(), *n)).collect();
        vensure!(got == exp, "C17:building:partition", "yearly schedule {:?}: expected periods {:?}, converted {:?}", y.name, exp, got);
    }
    for w in &b.weeks {
        let mw = match m.schedules.week.iter().find(|x| x.name == w.name) {
            Some(x) => x,
            None => vfail!("C17:building:week-missing", "weekly schedule {:?} missing", w.name),
        };
        let names: Vec<String> = w.days.iter().map(|d| b.days[pick(*d, b.days.len())].name.clone()).collect();
        let exp: Vec<String> = if names.len() == 1 { vec![names[0].clone(); 7] } else { names };
        let got: Vec<String> = mw.to_day_sch().iter().map(|d| m.schedules.day.iter().find(|x| x.id == *d).map(|x| x.name.clone()).unwrap_or_default()).collect();
        vensure!(got == exp, "C17:building:week-runs", "weekly schedule {:?}: expected days {:?}, converted {:?}", w.name, exp, got);
    }
    for d in &b.days {
        let md = match m.schedules.day.iter().find(|x| x.name == d.name) {
            Some(x) => x,
            None => vfail!("C17:building:day-missing", "daily schedule {:?} missing", d.name),
        };
        let exp: Vec<f32> = if d.values.len() == 1 { vec![d.values[0]; 24] } else { d.values.clone() };
        vensure!(md.values.len() == 24 && md.values.iter().zip(&exp).all(|(a, c)| (a - c).abs() < 1e-6), "C17:building:day-values", "daily schedule {:?}: expected {:?}, converted {:?}", d.name, exp, md.values);
    }
    if b.years.iter().any(|y| y.periods.len() >= 3) {
        h.nontrivial(fp(&(b.salt, b.years.len())));
    }
    Verdict::Pass
}

// ------------------------------------------------------------------ (c) occupancy hours and mean load

/// own expansion of a yearly schedule into 8760 values (None when a link is missing)
fn year_values(m: &Model, id: Uuid) -> Option<Vec<f32>> {
    let y = m.schedules.year.iter().find(|y| y.id == id)?;
    let mut out = vec![];
    let mut d = 0usize;
    for (wid, n) in &y.values {
        let w = m.schedules.week.iter().find(|w| w.id == *wid)?;
        let week7: Vec<Uuid> = w.values.iter().flat_map(|(dd, k)| std::iter::repeat(*dd).take(*k as usize)).collect();
        if week7.len() != 7 {
            return None;
        }
        for _ in 0..*n {
            let day = m.schedules.day.iter().find(|x| x.id == week7[d % 7])?;
            if day.values.len() != 24 {
                return None;
            }
            out.extend_from_slice(&day.values);
            d += 1;
        }
    }
    if out.len() == 8760 {
        Some(out)
    } else {
        None
    }
}

pub fn check_use_model(h: &CaseH, m: &Model) -> Verdict {
    let ind = match indicators(m) {
        Ok(i) => i,
        Err(v) => return v,
    };
    let e = env::envelope(m);
    let g = &ind.props.global;
    // counted spaces: habitable, inside the envelope
    let counted: Vec<&bemodel::Space> = m.spaces.iter().filter(|s| s.kind != SpaceType::UNINHABITED && s.inside_tenv).collect();
    // every schedule involved must be a proper 365 x 24 schedule, else the statement does not apply
    let mut occ: Vec<Vec<f32>> = vec![];
    let (mut load_sum, mut area_sum) = (0.0f64, 0.0f64);
    let mut cache: BTreeMap<Uuid, Option<Vec<f32>>> = BTreeMap::new();
    let mut yv = |id: Uuid| cache.entry(id).or_insert_with(|| year_values(m, id)).clone();
    let mut all_loaded = true;
    for s in &counted {
        let a = e.spaces[&s.id].area * s.multiplier as f64;
        let l = match s.loads.and_then(|l| m.loads.iter().find(|x| x.id == l)) {
            Some(l) => l,
            None => {
                all_loaded = false;
                continue;
            }
        };
        let mean = |sch: Option<Uuid>, yv: &mut dyn FnMut(Uuid) -> Option<Vec<f32>>| -> Option<f64> {
            match sch {
                None => Some(0.0),
                Some(id) => yv(id).map(|v| v.iter().map(|x| *x as f64).sum::<f64>() / 8760.0),
            }
        };
        let (p, li, eq) = match (mean(l.people_schedule, &mut yv), mean(l.lighting_schedule, &mut yv), mean(l.equipment_schedule, &mut yv)) {
            (Some(a), Some(b), Some(c)) => (a, b, c),
            _ => {
                h.class("improper-schedule(not asserted)");
                return Verdict::Pass;
            }
        };
        load_sum += a * (p * l.people_sensible as f64 + li * l.lighting as f64 + eq * l.equipment as f64);
        area_sum += a;
        if let Some(ps) = l.people_schedule {
            if let Some(v) = yv(ps) {
                occ.push(v);
            }
        }
    }
    // hours in use: at least one counted space with non-zero occupancy
    let mut hours = 0u32;
    if !occ.is_empty() {
        for i in 0..8760 {
            if occ.iter().any(|v| v[i].abs() > 1e-5) {
                hours += 1;
            }
        }
    }
    vensure!(g.occ_spaces_hours_in_use == hours, "C17:hours-in-use", "occupied hours reported {} but {} hours have at least one habitable space inside the envelope with non-zero occupancy ({} occupied spaces)", g.occ_spaces_hours_in_use, hours, occ.len());
    if all_loaded {
        let exp = if area_sum > 1e-6 { load_sum / area_sum } else { 0.0 };
        vensure!((g.occ_spaces_average_load as f64 - exp).abs() <= 1e-4 * exp.abs() + 1e-4, "C17:average-load", "mean internal load reported {} but the floor-area-weighted mean is {:.5} ({} spaces, area {:.2})", g.occ_spaces_average_load, exp, counted.len(), area_sum);
        h.class("average-load-checked");
    } else {
        h.class("space-without-loads(load mean not asserted)");
    }
    // partial overlap between two occupied spaces
    if occ.len() >= 2 {
        let a: u32 = occ[0].iter().filter(|v| v.abs() > 1e-5).count() as u32;
        if hours > a && a > 0 {
            h.class("partially-overlapping-occupancy");
            h.nontrivial(fp(&(m.spaces.len(), hours, (g.occ_spaces_average_load * 1000.0) as i64)));
        }
    }
    if m.spaces.iter().any(|s| !s.inside_tenv && s.loads.is_some()) || m.spaces.iter().any(|s| s.kind == SpaceType::UNINHABITED && s.loads.is_some()) {
        h.class("space-that-must-not-count");
    }
    Verdict::Pass
}

fn use_plan() -> BoxedStrategy<Plan> {
    model::plan(Params { open: false, shades: 0, max_spaces: 6, unpositioned: false, overrides: false, ..Params::default() })
        .prop_map(|mut p| {
            // most spaces occupied, schedules shared or not
            for (i, s) in p.spaces.iter_mut().enumerate() {
                if s.loads.is_none() && (p.salt >> i) & 3 != 0 {
                    s.loads = Some((p.salt >> (i * 2)) as u16);
                }
                // smaller rooms: cheaper shading computation is irrelevant here
                for e in s.sides.iter_mut() {
                    e.windows.clear();
                }
            }
            if p.uses.loads.is_empty() {
                p.uses.loads.push(model::LoadsP { area_per_person: 10.0, people: Some(0), sens: 5.0, lat: 3.0, equip: 4.0, equip_sch: Some(1), light: 6.0, light_sch: None });
            }
            for l in p.uses.loads.iter_mut() {
                if l.people.is_none() && p.salt % 3 != 0 {
                    l.people = Some(p.salt as u16);
                }
            }
            p
        })
        .boxed()
}

fn check_use_plan(h: &CaseH, pl: &Plan) -> Verdict {
    let m = model::build(pl);
    let v = check_use_model(h, &m);
    h.sample(|| json!({"spaces": pl.spaces.iter().map(|s| json!({"kind": s.kind, "inside": s.inside, "mult": s.mult, "loads": s.loads})).collect::<Vec<_>>(), "years": pl.uses.years.len(), "weeks": pl.uses.weeks.len(), "days": pl.uses.days.len(), "loads": pl.uses.loads.len()}));
    v
}

pub fn run(args: &Args) -> ! {
    let ctx = Ctx::new("C17", "exploration", args);
    ctx.rule("expansion: yearly schedules with 1-12 periods of arbitrary positive lengths (1..400 days, any sum), 1-4 weekly patterns as runs summing to 7, 1-8 daily schedules; oracle: day d (year starts on a Monday) takes slot d mod 7 of the 7-day expansion of the weekly schedule of the period containing d. dates: HULC SCHEDULE-PD texts whose end dates are - exhaustively - each of the 365 dates followed by 31 December, and random increasing lists of 1-12 dates ending on 31 December, WEEK-SCHEDULE-PD with 7 names or 1, DAY-SCHEDULE-PD with 24 values or 1, converted with Data::new + Model::try_from; oracle: the month-length table. buildings: schedules of generated typed buildings. use: generated closed models with 1-6 spaces sharing or not sharing loads and schedules, spaces that must not count (uninhabited, outside, without loads, loads without people schedule), multipliers, and the shipped models; oracle: own 8760-value expansion, hours with at least one counted space occupied, floor-area-weighted load mean. Non-trivial: >= 3 periods with boundaries off the week grid; >= 2 occupied spaces whose occupied hours overlap partially.");
    ctx.assume("generated schedule values are 0 or >= 0.01 (away from the 1e-5 threshold); the load mean is asserted only when every habitable space inside the envelope has a loads definition");
    ctx.replay_regressions(replay_one);
    ctx.run_prop("expansion", ctx.tier().pick(100_000, 1_000_000), exp_case, check_expansion);
    // every date of the year, followed by 31 December
    let mut all_dates = vec![];
    for m in 1..=12u32 {
        for d in 1..=month_len(m) {
            let dates = if (m, d) == (12, 31) { vec![(12, 31)] } else { vec![(m, d), (12, 31)] };
            all_dates.push(DateCase { dates, week: vec![0, 0, 0, 0, 0, 1, 1], single_value_day: d % 2 == 0 });
        }
    }
    ctx.run_enum("all_365_end_dates", &all_dates, true, check_dates);
    ctx.run_prop("date_lists", ctx.tier().pick(15_000, 200_000), date_lists, check_dates);
    ctx.run_prop("buildings", ctx.tier().pick(1_000, 20_000), gb::bld, check_bld_schedules);
    let real = shipped_models();
    ctx.run_enum("shipped", &real.iter().map(|(n, _)| n.clone()).collect::<Vec<_>>(), true, |h, name| {
        let m = &real.iter().find(|(n, _)| n == name).unwrap().1;
        h.nontrivial(fp(name));
        check_use_model(h, m)
    });
    ctx.run_prop("use", ctx.tier().pick(6_000, 100_000), use_plan, check_use_plan);
    for c in ["all_365_end_dates/end-date-in-february", "use/average-load-checked", "use/partially-overlapping-occupancy", "use/space-that-must-not-count"] {
        ctx.require_class(c);
    }
    ctx.finish()
}

pub fn replay_one(ctx: &Ctx, doc: &ReplayDoc) {
    use crate::engine::replay_case;
    match doc.sub.as_str() {
        "expansion" => replay_case::<ExpCase>(ctx, &doc.sub, &doc.case, check_expansion),
        "all_365_end_dates" | "date_lists" => replay_case::<DateCase>(ctx, &doc.sub, &doc.case, check_dates),
        "buildings" => replay_case::<Bld>(ctx, &doc.sub, &doc.case, check_bld_schedules),
        "use" => replay_case::<Plan>(ctx, &doc.sub, &doc.case, check_use_plan),
        s => ctx.infra_error(format!("unknown sub {}", s)),
    }
}
