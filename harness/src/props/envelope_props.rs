//! C08 (K), C09 (n50), C10 (q_sol;jul): generated envelope models against the f64 reference.

use std::collections::BTreeMap;

use proptest::prelude::*;
use serde_json::json;

use bemodel::climatedata::MONTHLYRADDATA;
use bemodel::energy::EnergyIndicators;
use bemodel::{BoundaryType, Model, Uuid};

use crate::engine::{catch, fp, Args, CaseH, Ctx, ReplayDoc, Verdict};
use crate::gen::model::{self, Params, Plan};
use crate::oracle::envelope::{self as env, TiltC};
use crate::util::close;
use crate::{vensure, vfail};

pub fn indicators(m: &Model) -> Result<EnergyIndicators, Verdict> {
    match catch(|| m.energy_indicators()) {
        Ok(i) => Ok(i),
        Err(p) => Err(Verdict::from_panic("indicators", &p)),
    }
}

pub fn shipped_models() -> Vec<(String, Model)> {
    let mut out = vec![];
    for p in crate::util::files_with_ext(std::path::Path::new("/repo/bemodel/tests/data"), &["json"]) {
        if let Ok(txt) = std::fs::read_to_string(&p) {
            if let Ok(m) = Model::from_json(&txt) {
                out.push((p.file_name().unwrap().to_string_lossy().to_string(), m));
            }
        }
    }
    out
}

fn plan_params(open: bool) -> Params {
    Params {
        open,
        ..Params::default()
    }
}

pub fn mixed_plan() -> BoxedStrategy<Plan> {
    prop_oneof![3 => model::plan(plan_params(false)), 2 => model::plan(plan_params(true))].boxed()
}

// ------------------------------------------------------------------ C08

pub struct KExpect {
    pub a_op: f64,
    pub au_op: f64,
    pub a_win: f64,
    pub au_win: f64,
    pub tb_l: f64,
    pub tb_psil: f64,
    pub tol_a: f64,
    pub tol_au: f64,
    pub by_cat: BTreeMap<&'static str, (f64, f64)>,
    pub classes: Vec<&'static str>,
}

pub fn k_expected(m: &Model, ind: &EnergyIndicators) -> KExpect {
    let e = env::envelope(m);
    let mut x = KExpect {
        a_op: 0.0,
        au_op: 0.0,
        a_win: 0.0,
        au_win: 0.0,
        tb_l: 0.0,
        tb_psil: 0.0,
        tol_a: 0.0,
        tol_au: 0.0,
        by_cat: BTreeMap::new(),
        classes: vec![],
    };
    for w in &m.walls {
        let wi = &e.walls[&w.id];
        if wi.space_inside == Some(false) {
            x.classes.push("outside-space-wall");
        }
        if wi.bounds == BoundaryType::INTERIOR && wi.is_tenv {
            x.classes.push("interior-across-envelope");
        }
        if !(wi.is_tenv && (wi.bounds == BoundaryType::EXTERIOR || wi.bounds == BoundaryType::GROUND)) {
            continue;
        }
        if wi.mult != 1.0 {
            x.classes.push("multiplier");
        }
        let wp = ind.props.walls.get(&w.id);
        let u_over = m.overrides.walls.get(&w.id).and_then(|o| o.u_value).map(|v| v as f64);
        let u_comp = wp.and_then(|p| p.u_value).map(|v| v as f64);
        if u_over.is_some() {
            x.classes.push("override");
        }
        let u = u_over.or(u_comp).unwrap_or_else(|| {
            x.classes.push("fallback-5.7");
            5.7
        });
        let a = wi.mult * env::round2(wi.area_net_raw);
        x.a_op += a;
        x.au_op += a * u;
        x.tol_a += wi.mult * 0.0101; // a two-decimal tie may round either way in f32
        x.tol_au += wi.mult * 0.0101 * u.abs();
        let cat = match (wi.bounds, wi.tilt) {
            (BoundaryType::GROUND, _) => "ground",
            (_, TiltC::Top) => "roofs",
            (_, TiltC::Bottom) => "floors",
            (_, TiltC::Side) => "walls",
        };
        let c = x.by_cat.entry(cat).or_insert((0.0, 0.0));
        c.0 += a;
        c.1 += a * u;
        for win in m.windows.iter().filter(|v| v.wall == w.id) {
            let o = m.overrides.windows.get(&win.id).and_then(|o| o.u_value).map(|v| v as f64);
            let comp = ind.props.windows.get(&win.id).and_then(|p| p.u_value).map(|v| v as f64);
            if o.is_some() {
                x.classes.push("override");
            }
            let uw = o.or(comp).unwrap_or_else(|| {
                x.classes.push("fallback-5.7");
                5.7
            });
            let aw = wi.mult * win.geometry.width as f64 * win.geometry.height as f64;
            x.a_win += aw;
            x.au_win += aw * uw;
        }
    }
    for tb in &m.thermal_bridges {
        if (tb.l as f64) < 0.0 {
            x.classes.push("negative-bridge");
            continue;
        }
        x.tb_l += tb.l as f64;
        x.tb_psil += tb.l as f64 * tb.psi as f64;
    }
    x
}

fn check_k_model(h: &CaseH, m: &Model, do_meta: bool) -> Verdict {
    let ind = match indicators(m) {
        Ok(i) => i,
        Err(v) => return v,
    };
    let x = k_expected(m, &ind);
    for c in &x.classes {
        h.class(c);
    }
    let k = &ind.K_data;
    let a = x.a_op + x.a_win;
    let au = x.au_op + x.au_win + x.tb_psil;
    let rt = 3e-4;
    vensure!(close(k.summary.opaques_a as f64, x.a_op, x.tol_a + 0.01, rt), "C08:opaque-area", "opaque area in K: reported {} expected {:.3}", k.summary.opaques_a, x.a_op);
    vensure!(close(k.summary.windows_a as f64, x.a_win, 0.01, rt), "C08:window-area", "window area in K: reported {} expected {:.3}", k.summary.windows_a, x.a_win);
    vensure!(close(k.summary.opaques_au as f64, x.au_op, x.tol_au + 0.01, rt), "C08:opaque-au", "opaque A*U: reported {} expected {:.3}", k.summary.opaques_au, x.au_op);
    vensure!(close(k.summary.windows_au as f64, x.au_win, 0.01, rt), "C08:window-au", "window A*U: reported {} expected {:.3}", k.summary.windows_au, x.au_win);
    vensure!(close(k.summary.tbs_psil as f64, x.tb_psil, 0.01, rt), "C08:bridges-psil", "sum psi*L over non-negative bridges: reported {} expected {:.4}", k.summary.tbs_psil, x.tb_psil);
    vensure!(close(k.summary.tbs_l as f64, x.tb_l, 0.01, rt), "C08:bridges-l", "sum L over non-negative bridges: reported {} expected {:.4}", k.summary.tbs_l, x.tb_l);
    let k_exp = if a < 0.01 { 0.0 } else { au / a };
    let tol_k = if a < 0.01 { 1e-6 } else { (x.tol_au + k_exp.abs() * x.tol_a + 0.02) / a.max(0.01) + rt * k_exp.abs() };
    if a >= 0.02 || a < 0.005 {
        vensure!((k.K as f64 - k_exp).abs() <= tol_k, "C08:K-value", "K reported {} expected {:.5} (A={:.3}, AU={:.3}, tol {:.5})", k.K, k_exp, a, au, tol_k);
    }
    // breakdown adds up
    let cats = [("walls", &k.walls), ("roofs", &k.roofs), ("floors", &k.floors), ("ground", &k.ground)];
    let (mut sa, mut sau) = (0.0f64, 0.0f64);
    for (name, c) in cats {
        sa += c.a as f64;
        sau += c.au as f64;
        let (ea, eau) = x.by_cat.get(name).copied().unwrap_or((0.0, 0.0));
        vensure!(close(c.a as f64, ea, x.tol_a + 0.01, rt), "C08:category-area", "category {} area reported {} expected {:.3}", name, c.a, ea);
        vensure!(close(c.au as f64, eau, x.tol_au + 0.01, rt), "C08:category-au", "category {} A*U reported {} expected {:.3}", name, c.au, eau);
        if let (Some(mn), Some(mx), Some(me)) = (c.u_min, c.u_max, c.u_mean) {
            vensure!(me >= mn - 2e-4 - 1e-4 * mn.abs() && me <= mx + 2e-4 + 1e-4 * mx.abs(), "C08:mean-outside-min-max", "category {} mean {} outside [{}, {}]", name, me, mn, mx);
        }
    }
    if let (Some(mn), Some(mx), Some(me)) = (k.windows.u_min, k.windows.u_max, k.windows.u_mean) {
        vensure!(me >= mn - 2e-4 - 1e-4 * mn.abs() && me <= mx + 2e-4 + 1e-4 * mx.abs(), "C08:mean-outside-min-max", "windows mean {} outside [{}, {}]", me, mn, mx);
    }
    vensure!(close(sa, k.summary.opaques_a as f64, 1e-3, 1e-5), "C08:breakdown-sum", "categories area sum {} != opaques_a {}", sa, k.summary.opaques_a);
    vensure!(close(sau, k.summary.opaques_au as f64, 1e-3, 1e-5), "C08:breakdown-sum", "categories A*U sum {} != opaques_au {}", sau, k.summary.opaques_au);
    vensure!(close((k.summary.opaques_a + k.summary.windows_a) as f64, k.summary.a as f64, 1e-3, 1e-5), "C08:breakdown-sum", "summary.a {} != opaques_a + windows_a", k.summary.a);
    vensure!(close((k.summary.opaques_au + k.summary.windows_au + k.summary.tbs_psil) as f64, k.summary.au as f64, 1e-3, 1e-5), "C08:breakdown-sum", "summary.au {} != parts", k.summary.au);
    let t = &k.tbs;
    let parts = [t.roof, t.balcony, t.corner, t.intermediate_floor, t.internal_wall, t.ground_floor, t.pillar, t.window, t.generic];
    let sl: f64 = parts.iter().map(|p| p.l as f64).sum();
    let sp: f64 = parts.iter().map(|p| p.psil as f64).sum();
    vensure!(close(sl, k.summary.tbs_l as f64, 1e-3, 1e-5) && close(sp, k.summary.tbs_psil as f64, 1e-3, 1e-5), "C08:breakdown-sum", "bridge kinds do not add up: l {} vs {}, psil {} vs {}", sl, k.summary.tbs_l, sp, k.summary.tbs_psil);
    // per-kind bridge sums
    let mut by_kind: BTreeMap<String, (f64, f64)> = BTreeMap::new();
    for tb in &m.thermal_bridges {
        if (tb.l as f64) >= 0.0 {
            let e = by_kind.entry(format!("{:?}", tb.kind)).or_insert((0.0, 0.0));
            e.0 += tb.l as f64;
            e.1 += tb.l as f64 * tb.psi as f64;
        }
    }
    let named = [("ROOF", t.roof), ("BALCONY", t.balcony), ("CORNER", t.corner), ("INTERMEDIATEFLOOR", t.intermediate_floor), ("INTERNALWALL", t.internal_wall), ("GROUNDFLOOR", t.ground_floor), ("PILLAR", t.pillar), ("WINDOW", t.window), ("GENERIC", t.generic)];
    for (n, p) in named {
        let (el, ep) = by_kind.get(n).copied().unwrap_or((0.0, 0.0));
        vensure!(close(p.l as f64, el, 1e-2, rt) && close(p.psil as f64, ep, 1e-2, rt), "C08:bridge-kind", "bridge kind {}: reported l={} psil={} expected {:.3} {:.4}", n, p.l, p.psil, el, ep);
    }

    if do_meta {
        // unambiguous models only: "first ceiling found" and "first ground slab found" are documented order dependences
        let e = env::envelope(m);
        let ambiguous = e.spaces.values().any(|s| {
            let c = &s.height_net_candidates;
            c.iter().any(|v| (v - c[0]).abs() > 1e-9)
        }) || m.spaces.iter().any(|s| {
            m.walls
                .iter()
                .filter(|w| w.space == s.id && w.bounds == BoundaryType::GROUND && env::tilt_class(w.geometry.tilt as f64) == TiltC::Bottom)
                .count()
                > 1
        });
        if ambiguous {
            h.class("meta/skipped-order-dependent-by-doc");
        } else {
            for (label, m2) in [("reordered+renamed", reorder_rename(m)), ("re-id", reid(m))] {
                let ind2 = match indicators(&m2) {
                    Ok(i) => i,
                    Err(v) => return v,
                };
                let k2 = &ind2.K_data;
                let tol = 5e-4;
                // the U of a ground element comes out of sums over the space's walls (exposed perimeter) and is rounded
                // to two decimals by the library: another summation order may flip that last digit, which moves A.U by
                // 0.01 x the ground area and nothing else; elements facing air do not depend on any such sum
                let slack_au = 0.0101 * k.ground.a as f64;
                let slack_k = if k.summary.a > 0.0 { slack_au / k.summary.a as f64 } else { 0.0 };
                vensure!(
                    close(k.K as f64, k2.K as f64, 2e-4 + slack_k, tol) && close(k.summary.a as f64, k2.summary.a as f64, 0.02, tol) && close(k.summary.au as f64, k2.summary.au as f64, 0.02 + slack_au, tol),
                    format!("C08:metamorphic:{}", label),
                    "K changes when the model is {}: K {} -> {}, A {} -> {}, AU {} -> {}",
                    label,
                    k.K,
                    k2.K,
                    k.summary.a,
                    k2.summary.a,
                    k.summary.au,
                    k2.summary.au
                );
            }
            h.class("meta/checked");
        }
    }
    let need = ["outside-space-wall", "multiplier", "override", "fallback-5.7", "negative-bridge"];
    if need.iter().filter(|n| x.classes.contains(n)).count() >= 3 {
        h.nontrivial(fp(&json!([m.walls.len(), m.windows.len(), (k.K * 1000.0) as i64, (a * 100.0) as i64])));
    }
    Verdict::Pass
}

pub fn reorder_rename(m: &Model) -> Model {
    let mut m = m.clone();
    m.walls.reverse();
    m.windows.reverse();
    m.spaces.reverse();
    m.thermal_bridges.reverse();
    m.shades.reverse();
    m.cons.wallcons.reverse();
    m.cons.wincons.reverse();
    m.cons.materials.reverse();
    m.cons.glasses.reverse();
    m.cons.frames.reverse();
    m.loads.reverse();
    m.thermostats.reverse();
    m.schedules.year.reverse();
    m.schedules.week.reverse();
    m.schedules.day.reverse();
    for w in &mut m.walls {
        w.name = format!("{}_renamed", w.name);
    }
    for w in &mut m.windows {
        w.name = format!("x{}", w.name);
    }
    for w in &mut m.spaces {
        w.name = format!("{} (2)", w.name);
    }
    for w in &mut m.thermal_bridges {
        w.name.push('b');
    }
    m
}

/// consistent re-identification of every element: id -> id XOR constant
pub fn reid(m: &Model) -> Model {
    let f = |u: Uuid| if u.is_nil() { u } else { Uuid::from_u128(u.as_u128() ^ 0x0000_0000_0000_0000_0000_5a5a_5a5a_5a5a) };
    let mut m = m.clone();
    for s in &mut m.spaces {
        s.id = f(s.id);
        s.loads = s.loads.map(f);
        s.thermostat = s.thermostat.map(f);
    }
    for w in &mut m.walls {
        w.id = f(w.id);
        w.space = f(w.space);
        w.cons = f(w.cons);
        w.next_to = w.next_to.map(f);
    }
    for w in &mut m.windows {
        w.id = f(w.id);
        w.wall = f(w.wall);
        w.cons = f(w.cons);
    }
    for t in &mut m.thermal_bridges {
        t.id = f(t.id);
    }
    for t in &mut m.shades {
        t.id = f(t.id);
    }
    for c in &mut m.cons.wallcons {
        c.id = f(c.id);
        for l in &mut c.layers {
            l.material = f(l.material);
        }
    }
    for c in &mut m.cons.wincons {
        c.id = f(c.id);
        c.glass = f(c.glass);
        c.frame = f(c.frame);
    }
    for c in &mut m.cons.materials {
        c.id = f(c.id);
    }
    for c in &mut m.cons.glasses {
        c.id = f(c.id);
    }
    for c in &mut m.cons.frames {
        c.id = f(c.id);
    }
    for l in &mut m.loads {
        l.id = f(l.id);
        l.people_schedule = l.people_schedule.map(f);
        l.equipment_schedule = l.equipment_schedule.map(f);
        l.lighting_schedule = l.lighting_schedule.map(f);
    }
    for l in &mut m.thermostats {
        l.id = f(l.id);
        l.temp_max = l.temp_max.map(f);
        l.temp_min = l.temp_min.map(f);
    }
    for y in &mut m.schedules.year {
        y.id = f(y.id);
        for v in &mut y.values {
            v.0 = f(v.0);
        }
    }
    for y in &mut m.schedules.week {
        y.id = f(y.id);
        for v in &mut y.values {
            v.0 = f(v.0);
        }
    }
    for y in &mut m.schedules.day {
        y.id = f(y.id);
    }
    m.overrides.walls = m.overrides.walls.iter().map(|(k, v)| (f(*k), v.clone())).collect();
    m.overrides.windows = m.overrides.windows.iter().map(|(k, v)| (f(*k), v.clone())).collect();
    m
}

fn check_k(h: &CaseH, pl: &Plan) -> Verdict {
    let m = model::build(pl);
    h.class(if pl.closed { "plan/closed" } else { "plan/open" });
    let v = check_k_model(h, &m, true);
    h.sample(|| json!({"spaces": m.spaces.len(), "walls": m.walls.len(), "windows": m.windows.len(), "bridges": m.thermal_bridges.len(), "overrides": m.overrides.walls.len() + m.overrides.windows.len(), "closed": pl.closed}));
    v
}

pub fn run_c08(args: &Args) -> ! {
    let ctx = Ctx::new("C08", "exploration", args);
    ctx.rule("generated envelope models (1-5 spaces inside/outside the envelope, all boundary kinds, canonical and odd tilts, multipliers, U overrides, bridges incl. negative/zero lengths, windows with/without resolvable construction; closed and open plans) and the shipped model files; oracle: K recomputed in f64 from the model (own envelope rule, net areas, multipliers, override > computed > 5.7) using the per-element U reported in props; breakdown identities; metamorphic: reorder+rename and consistent re-id leave K unchanged (models whose result is order dependent by documentation are counted, not asserted). Non-trivial: model exhibiting >= 3 of {outside-space wall, multiplier, override, 5.7 fallback, negative bridge}.");
    ctx.assume("per-element U-values are inputs here (C06/C07 decide them)");
    ctx.replay_regressions(replay_one);
    let real = shipped_models();
    ctx.run_enum("shipped", &real.iter().map(|(n, _)| n.clone()).collect::<Vec<_>>(), true, |h, name| {
        let m = &real.iter().find(|(n, _)| n == name).unwrap().1;
        h.nontrivial(fp(name));
        check_k_model(h, m, true)
    });
    ctx.run_prop("generated", ctx.tier().pick(12_000, 300_000), mixed_plan, check_k);
    for c in ["generated/outside-space-wall", "generated/interior-across-envelope", "generated/multiplier", "generated/override", "generated/fallback-5.7", "generated/negative-bridge", "generated/meta/checked"] {
        ctx.require_class(c);
    }
    ctx.finish()
}

// ------------------------------------------------------------------ C09

fn check_n50_model(h: &CaseH, m: &Model) -> Verdict {
    let ind = match indicators(m) {
        Ok(i) => i,
        Err(v) => return v,
    };
    let e = env::envelope(m);
    let d = &ind.n50_data;
    let (mut a_o, mut a_h, mut cha, mut tol_a) = (0.0f64, 0.0f64, 0.0f64, 0.0f64);
    for w in &m.walls {
        let wi = &e.walls[&w.id];
        let wins: Vec<_> = m.windows.iter().filter(|v| v.wall == w.id).collect();
        if !(wi.is_tenv && wi.bounds == BoundaryType::EXTERIOR) {
            if wi.is_tenv && !wins.is_empty() {
                h.class("excluded-element-with-windows");
            }
            continue;
        }
        if wi.mult != 1.0 {
            h.class("multiplier");
        }
        a_o += wi.mult * env::round2(wi.area_net_raw);
        tol_a += wi.mult * 0.0101;
        for win in wins {
            let c = m.cons.wincons.iter().find(|c| c.id == win.cons).map(|c| c.c_100 as f64).unwrap_or_else(|| {
                h.class("window-without-construction");
                100.0
            });
            let a = wi.mult * win.geometry.width as f64 * win.geometry.height as f64;
            a_h += a;
            cha += a * c;
        }
    }
    // V: net volume of the spaces inside the envelope, with the reported per-space net heights (C11 checks those)
    let mut v = 0.0f64;
    for s in &m.spaces {
        if s.inside_tenv {
            let si = &e.spaces[&s.id];
            let hn = ind.props.spaces.get(&s.id).map(|p| p.height_net as f64).unwrap_or(si.height);
            v += si.area * hn * si.mult;
        }
    }
    let v = env::round2(v);
    let c_o = if m.meta.is_new_building { 16.0 } else { 29.0 };
    let rt = 3e-4;
    vensure!(close(d.vol as f64, v, 0.02, rt), "C09:volume", "n50 volume reported {} expected {:.3}", d.vol, v);
    vensure!(close(d.walls_a as f64, a_o, tol_a + 0.01, rt), "C09:opaque-area", "A_o reported {} expected {:.3}", d.walls_a, a_o);
    vensure!(close(d.windows_a as f64, a_h, 0.01, rt), "C09:window-area", "A_h reported {} expected {:.3}", d.windows_a, a_h);
    vensure!(close(d.windows_c_a as f64, cha, 0.5, rt), "C09:window-permeability", "sum C_h*A_h reported {} expected {:.3}", d.windows_c_a, cha);
    vensure!(d.walls_c_ref as f64 == c_o, "C09:c_o", "C_o reported {} expected {}", d.walls_c_ref, c_o);
    let n50_ref = if v <= 0.0 { 0.0 } else { 0.629 * (c_o * a_o + cha) / v };
    if v > 0.02 || v <= 0.0 {
        let tol = if v > 0.0 { 0.629 * (c_o * (tol_a + 0.01) + 0.5) / v + rt * n50_ref.abs() + 0.02 * n50_ref / v } else { 1e-9 };
        vensure!((d.n50_ref as f64 - n50_ref).abs() <= tol, "C09:n50_ref", "n50_ref reported {} expected {:.5} (A_o={:.2} ChAh={:.2} V={:.2})", d.n50_ref, n50_ref, a_o, cha, v);
    }
    if v <= 0.0 {
        h.class("zero-volume");
    }
    if a_o <= 0.0 {
        h.class("zero-opaque-area");
    }
    match m.meta.n50_test_ach {
        Some(t) => {
            h.class("with-test");
            vensure!(d.n50 == t, "C09:n50-test", "n50 reported {} but the blower-door result is {}", d.n50, t);
            if a_o > 0.02 {
                let c = ((t as f64 * v) / 0.629 - cha) / a_o;
                let tol = rt * c.abs() + (0.5 + c.abs() * (tol_a + 0.01) + 0.02 * t as f64 / 0.629) / a_o;
                vensure!((d.walls_c as f64 - c).abs() <= tol, "C09:c_o-from-test", "wall permeability from test reported {} expected {:.4}", d.walls_c, c);
            } else if a_o <= 0.0 {
                vensure!(d.walls_c as f64 == c_o, "C09:c_o-from-test", "without opaque area the wall permeability must be C_o={}, reported {}", c_o, d.walls_c);
            }
        }
        None => {
            vensure!(d.n50 == d.n50_ref, "C09:n50-without-test", "n50 {} != n50_ref {} without test", d.n50, d.n50_ref);
            vensure!(d.walls_c as f64 == c_o, "C09:c_o-without-test", "wall permeability {} != C_o {} without test", d.walls_c, c_o);
        }
    }
    vensure!(close(d.walls_c_a as f64, d.walls_a as f64 * d.walls_c as f64, 1e-2, 1e-4), "C09:identity", "walls_c_a {} != walls_a*walls_c", d.walls_c_a);
    vensure!(close(d.walls_c_a_ref as f64, d.walls_a as f64 * d.walls_c_ref as f64, 1e-2, 1e-4), "C09:identity", "walls_c_a_ref {} != walls_a*walls_c_ref", d.walls_c_a_ref);
    if d.windows_a > 0.01 {
        vensure!(close(d.windows_c as f64, d.windows_c_a as f64 / d.windows_a as f64, 1e-2, 1e-4), "C09:identity", "windows_c {} != windows_c_a/windows_a", d.windows_c);
    }
    for x in [d.n50, d.n50_ref, d.walls_c, d.walls_c_a, d.windows_c, d.windows_c_a] {
        vensure!(x.is_finite(), "C09:non-finite", "non-finite figure in n50 report: {:?}", d);
    }
    if m.meta.n50_test_ach.is_some() || m.spaces.iter().any(|s| s.multiplier != 1.0) {
        h.nontrivial(fp(&json!([m.walls.len(), m.windows.len(), (d.n50_ref * 1000.0) as i64, (a_o * 100.0) as i64])));
    }
    Verdict::Pass
}

fn check_n50(h: &CaseH, pl: &Plan) -> Verdict {
    let m = model::build(pl);
    h.class(if pl.closed { "plan/closed" } else { "plan/open" });
    let v = check_n50_model(h, &m);
    h.sample(|| json!({"spaces": m.spaces.len(), "walls": m.walls.len(), "windows": m.windows.len(), "new": m.meta.is_new_building, "test": m.meta.n50_test_ach}));
    v
}

/// corner cases: no floors (zero volume) and no exterior opaque area
fn degenerate_plan() -> BoxedStrategy<Plan> {
    (model::plan(plan_params(true)), 0u8..3)
        .prop_map(|(mut p, mode)| {
            for s in &mut p.spaces {
                match mode {
                    0 => {
                        // zero volume: floors become walls-only by turning every floor adiabatic with zero size
                        s.w = 0.0;
                    }
                    1 => {
                        for e in s.sides.iter_mut().chain(s.floors.iter_mut()) {
                            if e.bounds == 0 {
                                e.bounds = 3;
                            }
                        }
                        if let Some((e, _)) = &mut s.ceiling {
                            if e.bounds == 0 {
                                e.bounds = 1;
                            }
                        }
                    }
                    _ => {
                        s.inside = false;
                    }
                }
            }
            p
        })
        .boxed()
}

pub fn run_c09(args: &Args) -> ! {
    let ctx = Ctx::new("C09", "exploration", args);
    ctx.rule("generated envelope models (new/existing, with/without blower-door value, windows with/without construction, multipliers, ground/adiabatic/interior elements with windows that must be excluded) plus degenerate plans (zero volume, no exterior opaque area, nothing inside the envelope) and the shipped models; oracle: n50_ref = 0.629 (C_o A_o + sum C_h A_h)/V recomputed in f64 from the model, test-value branch and back-calculated wall permeability, identities among reported fields. Non-trivial: model with a test value or a multiplier != 1.");
    ctx.assume("per-space net heights are inputs here (C11 checks them against the ceiling thickness)");
    ctx.replay_regressions(replay_one);
    let real = shipped_models();
    ctx.run_enum("shipped", &real.iter().map(|(n, _)| n.clone()).collect::<Vec<_>>(), true, |h, name| {
        let m = &real.iter().find(|(n, _)| n == name).unwrap().1;
        h.nontrivial(fp(name));
        check_n50_model(h, m)
    });
    ctx.run_prop("generated", ctx.tier().pick(12_000, 300_000), mixed_plan, check_n50);
    ctx.run_prop("degenerate", ctx.tier().pick(3_000, 60_000), degenerate_plan, check_n50);
    for c in ["generated/with-test", "generated/multiplier", "generated/window-without-construction", "generated/excluded-element-with-windows", "degenerate/zero-volume", "degenerate/zero-opaque-area"] {
        ctx.require_class(c);
    }
    ctx.finish()
}

// ------------------------------------------------------------------ C10

pub fn july_irradiation(zone: bemodel::climatedata::ClimateZone, orient: &str) -> Option<f64> {
    let t = MONTHLYRADDATA.lock().unwrap_or_else(|e| e.into_inner());
    t.iter()
        .find(|e| e.zone == zone && env::orientation_name(e.orientation) == orient)
        .map(|e| e.dir[6] as f64 + e.dif[6] as f64)
}

fn check_qsol_model(h: &CaseH, m: &Model) -> Verdict {
    let ind = match indicators(m) {
        Ok(i) => i,
        Err(v) => return v,
    };
    let e = env::envelope(m);
    let q = &ind.q_soljul_data;
    let mut by_or: BTreeMap<&'static str, [f64; 7]> = BTreeMap::new(); // a, gains_lo, ff*a, g_lo*a, fsh*a, gains_hi, g_hi*a
    let (mut a_wp, mut gains, mut gains_hi, mut h_a) = (0.0f64, 0.0f64, 0.0f64, 0.0f64);
    let mut interesting = 0;
    for win in &m.windows {
        let wi = match e.walls.get(&win.wall) {
            Some(w) => w,
            None => continue,
        };
        if !(wi.is_tenv && (wi.bounds == BoundaryType::EXTERIOR || wi.bounds == BoundaryType::GROUND)) {
            h.class("window-on-excluded-wall");
            continue;
        }
        let hz = match july_irradiation(m.meta.climate, wi.orient) {
            Some(v) => v,
            None => vfail!("C10:table-missing", "no July irradiation for zone {} orientation {}", m.meta.climate, wi.orient),
        };
        let wc = m.cons.wincons.iter().find(|c| c.id == win.cons);
        // "to two decimals": a value within 2e-5 of a rounding tie may go either way in f32
        let r2iv = |x: f64| (env::round2(x - 2e-5), env::round2(x + 2e-5));
        let ((g, g_hi), ff) = match wc {
            Some(c) => {
                let gl = m.cons.glasses.iter().find(|g| g.id == c.glass);
                let g_glwi = gl.map(|g| r2iv(g.g_gln as f64 * 0.90));
                let g = c.g_glshwi.map(|v| r2iv(v as f64)).or(g_glwi).unwrap_or((0.77, 0.77));
                (g, c.f_f as f64)
            }
            None => {
                h.class("missing-construction");
                interesting += 1;
                ((0.77, 0.77), 0.20)
            }
        };
        let fsh_over = m.overrides.windows.get(&win.id).and_then(|o| o.f_shobst).map(|v| v as f64);
        let fsh_comp = ind.props.windows.get(&win.id).and_then(|p| p.f_shobst).map(|v| v as f64);
        if fsh_over.is_some() {
            h.class("override");
            interesting += 1;
        }
        let fsh = fsh_over.or(fsh_comp).unwrap_or(1.0);
        if wi.mult != 1.0 {
            h.class("multiplier");
            interesting += 1;
        }
        let a = win.geometry.width as f64 * win.geometry.height as f64 * wi.mult;
        let gain = fsh * g * (1.0 - ff) * a * hz;
        let gain_hi = fsh * g_hi * (1.0 - ff) * a * hz;
        a_wp += a;
        gains += gain.min(gain_hi);
        gains_hi += gain.max(gain_hi);
        h_a += hz * a;
        let o = by_or.entry(wi.orient).or_insert([0.0; 7]);
        o[0] += a;
        o[1] += gain.min(gain_hi);
        o[2] += ff * a;
        o[3] += g * a;
        o[4] += fsh * a;
        o[5] += gain.max(gain_hi);
        o[6] += g_hi * a;
        h.class(&format!("orient/{}", wi.orient));
    }
    let rt = 4e-4;
    let within = |v: f64, lo: f64, hi: f64, abs: f64| v >= lo - abs - rt * lo.abs() && v <= hi + abs + rt * hi.abs();
    // every figure finite
    let mut all = vec![q.q_soljul, q.Q_soljul, q.a_wp, q.irradiance_mean, q.fshobst_mean, q.gglshwi_mean, q.f_f_mean];
    for d in q.detail.values() {
        all.extend([d.gains, d.a, d.irradiance, d.f_f_mean, d.gglshwi_mean, d.fshobst_mean]);
    }
    if a_wp == 0.0 {
        h.class("no-qualifying-window");
        vensure!(all.iter().all(|v| v.is_finite()), "C10:no-window:non-finite", "model without qualifying window reports a non-finite figure: {:?}", q);
    }
    vensure!(close(q.a_wp as f64, a_wp, 0.01, rt), "C10:window-area", "a_wp reported {} expected {:.3}", q.a_wp, a_wp);
    vensure!(within(q.Q_soljul as f64, gains, gains_hi, 0.05), "C10:gains", "Q_sol;jul reported {} expected [{:.3}, {:.3}]", q.Q_soljul, gains, gains_hi);
    let a_ref = ind.area_ref as f64;
    if a_ref > 0.0 {
        vensure!(within(q.q_soljul as f64, gains / a_ref, gains_hi / a_ref, 0.05 / a_ref + 1e-4), "C10:q_soljul", "q_sol;jul reported {} expected [{:.5}, {:.5}] (A_ref={})", q.q_soljul, gains / a_ref, gains_hi / a_ref, a_ref);
    } else {
        vensure!(q.q_soljul.is_finite(), "C10:no-window:non-finite", "q_sol;jul is {} for A_ref = 0", q.q_soljul);
    }
    if a_wp > 0.01 {
        vensure!(close(q.irradiance_mean as f64, h_a / a_wp, 0.02, rt), "C10:mean", "irradiance_mean reported {} expected {:.3}", q.irradiance_mean, h_a / a_wp);
        let (mut f, mut g, mut s, mut g_hi) = (0.0, 0.0, 0.0, 0.0);
        for o in by_or.values() {
            f += o[2];
            g += o[3];
            s += o[4];
            g_hi += o[6];
        }
        vensure!(close(q.f_f_mean as f64, f / a_wp, 1e-3, rt), "C10:mean", "f_f_mean reported {} expected {:.4}", q.f_f_mean, f / a_wp);
        vensure!(within(q.gglshwi_mean as f64, g / a_wp, g_hi / a_wp, 1e-3), "C10:mean", "gglshwi_mean reported {} expected [{:.4}, {:.4}]", q.gglshwi_mean, g / a_wp, g_hi / a_wp);
        vensure!(close(q.fshobst_mean as f64, s / a_wp, 1e-3, rt), "C10:mean", "fshobst_mean reported {} expected {:.4}", q.fshobst_mean, s / a_wp);
    }
    // per-orientation breakdown
    let mut sum_g = 0.0f64;
    let mut sum_a = 0.0f64;
    for (o, d) in &q.detail {
        let name = env::orientation_name(*o);
        let ex = match by_or.get(name) {
            Some(x) => x,
            None => vfail!("C10:detail:unexpected-orientation", "orientation {} reported without any qualifying window", name),
        };
        sum_g += d.gains as f64;
        sum_a += d.a as f64;
        vensure!(close(d.a as f64, ex[0], 0.01, rt) && within(d.gains as f64, ex[1], ex[5], 0.05), "C10:detail", "orientation {}: reported a={} gains={} expected {:.3} {:.3}", name, d.a, d.gains, ex[0], ex[1]);
        if ex[0] > 0.01 {
            vensure!(
                close(d.f_f_mean as f64, ex[2] / ex[0], 1e-3, rt) && within(d.gglshwi_mean as f64, ex[3] / ex[0], ex[6] / ex[0], 1e-3) && close(d.fshobst_mean as f64, ex[4] / ex[0], 1e-3, rt),
                "C10:detail-mean",
                "orientation {}: means reported ({}, {}, {}) expected ({:.4}, {:.4}, {:.4})",
                name,
                d.f_f_mean,
                d.gglshwi_mean,
                d.fshobst_mean,
                ex[2] / ex[0],
                ex[3] / ex[0],
                ex[4] / ex[0]
            );
        }
        let hz = july_irradiation(m.meta.climate, name).unwrap_or(f64::NAN);
        vensure!(close(d.irradiance as f64, hz, 0.011, 1e-5), "C10:detail-irradiance", "orientation {}: irradiance {} but the table says {}", name, d.irradiance, hz);
    }
    vensure!(q.detail.len() == by_or.len(), "C10:detail:missing-orientation", "{} orientations reported, {} expected", q.detail.len(), by_or.len());
    vensure!(close(sum_g, q.Q_soljul as f64, 0.05, rt) && close(sum_a, q.a_wp as f64, 0.01, rt), "C10:breakdown-sum", "per-orientation gains/areas do not add up to the totals");
    if by_or.len() >= 2 && interesting >= 1 {
        h.nontrivial(fp(&json!([m.windows.len(), (gains * 10.0) as i64, format!("{}", m.meta.climate)])));
    }
    Verdict::Pass
}

fn check_qsol(h: &CaseH, pl: &Plan) -> Verdict {
    let m = model::build(pl);
    h.class(if pl.closed { "plan/closed" } else { "plan/open" });
    h.class(&format!("zone/{}", m.meta.climate));
    let v = check_qsol_model(h, &m);
    h.sample(|| json!({"zone": format!("{}", m.meta.climate), "windows": m.windows.len(), "walls": m.walls.len()}));
    v
}

/// one window, one orientation class, one zone: 32 x 9 exhaustive table walk
fn one_window_cases() -> Vec<(u8, f32, f32)> {
    let mut v = vec![];
    for z in 0..32u8 {
        for (tilt, az) in [(90.0f32, 0.0f32), (90.0, 45.0), (90.0, 90.0), (90.0, 135.0), (90.0, 180.0), (90.0, -135.0), (90.0, -90.0), (90.0, -45.0), (0.0, 0.0)] {
            v.push((z, tilt, az));
        }
    }
    v
}

fn one_window_model(zone: u8, tilt: f32, az: f32) -> Model {
    use bemodel::*;
    let sid = model::uid(model::K_SPACE, 0, 7);
    let wid = model::uid(model::K_WALL, 0, 7);
    let fid = model::uid(model::K_WALL, 1, 7);
    let mut m = Model::default();
    m.meta.climate = model::zone(zone);
    m.spaces.push(Space {
        id: sid,
        name: "s".into(),
        ..Space::default()
    });
    let rect = |w: f32, h: f32| vec![nalgebra::point![0.0, 0.0], nalgebra::point![w, 0.0], nalgebra::point![w, h], nalgebra::point![0.0, h]];
    m.walls.push(Wall {
        id: fid,
        name: "floor".into(),
        bounds: BoundaryType::GROUND,
        cons: Uuid::nil(),
        space: sid,
        next_to: None,
        geometry: WallGeom {
            tilt: 180.0,
            azimuth: 0.0,
            position: Some(nalgebra::point![0.0, 4.0, 0.0]),
            polygon: rect(5.0, 4.0),
        },
    });
    m.walls.push(Wall {
        id: wid,
        name: "w".into(),
        bounds: BoundaryType::EXTERIOR,
        cons: Uuid::nil(),
        space: sid,
        next_to: None,
        geometry: WallGeom {
            tilt,
            azimuth: az,
            position: Some(nalgebra::point![0.0, 0.0, if tilt == 0.0 { 3.0 } else { 0.0 }]),
            polygon: rect(5.0, 3.0),
        },
    });
    m.windows.push(Window {
        id: model::uid(model::K_WIN, 0, 7),
        name: "v".into(),
        cons: Uuid::nil(),
        wall: wid,
        geometry: WinGeom {
            position: Some(nalgebra::point![1.0, 1.0]),
            height: 1.0,
            width: 2.0,
            setback: 0.0,
        },
    });
    m
}

pub fn run_c10(args: &Args) -> ! {
    let ctx = Ctx::new("C10", "exploration", args);
    ctx.rule("generated envelope models x 32 zones (zone is a generated field), windows on walls of all orientation classes incl. rotated footprints and skylights, overrides, missing constructions, multipliers, models without qualifying windows; plus the exhaustive 32 zones x 9 orientation classes one-window models and the shipped models; oracle: Q = sum Fsh*g*(1-Ff)*A*m*H(zone, class) recomputed in f64 with the oracle's own sector classifier and its own lookup in the embedded monthly table; per-orientation breakdown and means; finite when there is no window. Non-trivial: >= 2 orientation classes and one of {override, missing construction, multiplier}.");
    ctx.assume("computed F_sh;obst per window is an input here (C12 decides it); embedded tables are data (C20 checks them)");
    ctx.replay_regressions(replay_one);
    let real = shipped_models();
    ctx.run_enum("shipped", &real.iter().map(|(n, _)| n.clone()).collect::<Vec<_>>(), true, |h, name| {
        let m = &real.iter().find(|(n, _)| n == name).unwrap().1;
        h.nontrivial(fp(name));
        check_qsol_model(h, m)
    });
    let cases = one_window_cases();
    ctx.run_enum("one_window_32x9", &cases, true, |h, (z, tilt, az)| {
        let m = one_window_model(*z, *tilt, *az);
        h.nontrivial(fp(&(z, (*tilt * 10.0) as i32, (*az * 10.0) as i32)));
        let v = check_qsol_model(h, &m);
        if v.is_fail() {
            return v;
        }
        // the gains must be non-zero: a window that qualifies and a non-zero table cell
        let ind = m.energy_indicators();
        vensure!(ind.q_soljul_data.Q_soljul > 0.0, "C10:one-window:zero-gains", "zone {} tilt {} azimuth {}: gains are zero", model::ZONES[*z as usize], tilt, az);
        Verdict::Pass
    });
    ctx.run_prop("generated", ctx.tier().pick(12_000, 300_000), mixed_plan, check_qsol);
    for c in ["generated/no-qualifying-window", "generated/override", "generated/missing-construction", "generated/multiplier", "generated/orient/HZ", "generated/orient/N", "generated/orient/S", "generated/orient/E", "generated/orient/W", "generated/orient/NE", "generated/orient/NW", "generated/orient/SE", "generated/orient/SW", "generated/window-on-excluded-wall"] {
        ctx.require_class(c);
    }
    ctx.finish()
}

pub fn replay_one(ctx: &Ctx, doc: &ReplayDoc) {
    use crate::engine::replay_case;
    match (doc.property.as_str(), doc.sub.as_str()) {
        ("C08", "generated") => replay_case::<Plan>(ctx, &doc.sub, &doc.case, check_k),
        ("C09", "generated") | ("C09", "degenerate") => replay_case::<Plan>(ctx, &doc.sub, &doc.case, check_n50),
        ("C10", "generated") => replay_case::<Plan>(ctx, &doc.sub, &doc.case, check_qsol),
        ("C10", "one_window_32x9") => replay_case::<(u8, f32, f32)>(ctx, &doc.sub, &doc.case, |h, (z, t, a)| check_qsol_model(h, &one_window_model(*z, *t, *a))),
        (p, "shipped") => {
            let name: String = serde_json::from_value(doc.case.clone()).unwrap_or_default();
            if let Some((_, m)) = shipped_models().into_iter().find(|(n, _)| *n == name) {
                replay_case::<String>(ctx, "shipped", &doc.case, |h, _| match p {
                    "C08" => check_k_model(h, &m, true),
                    "C09" => check_n50_model(h, &m),
                    _ => check_qsol_model(h, &m),
                });
            }
        }
        (p, s) => ctx.infra_error(format!("unknown replay target {} {}", p, s)),
    }
}
