//! C13 — ray casting: accelerated = exhaustive, both match exact geometry, reveal quads.

use std::time::Duration;

use bemodel::energy::{Bounded, Intersectable, Ray, BVH};
use nalgebra::{point, vector};
use proptest::prelude::*;
use serde::{Deserialize, Serialize};
use serde_json::{json, Value};

use crate::engine::{fp, worker_call, Args, CaseH, Ctx, ReplayDoc, Verdict, WorkerOut};
use crate::gen::geom::*;
use crate::oracle::ray as ora;

pub const ID: &str = "C13";

#[derive(Clone, Debug, Serialize, Deserialize)]
pub enum RaySpec {
    Free(RayD),
    /// aimed at element `idx` (scaled into the set) through a point at fractions (fx, fy, fz) of its bounds
    Aimed { idx: u16, o: P3, fx: f32, fy: f32, fz: f32 },
}

#[derive(Clone, Debug, Serialize, Deserialize)]
pub enum ElemSet {
    Boxes(Vec<BoxD>),
    Polys(Vec<PosedPoly>),
}

impl ElemSet {
    fn len(&self) -> usize {
        match self {
            ElemSet::Boxes(b) => b.len(),
            ElemSet::Polys(p) => p.len(),
        }
    }
}

#[derive(Clone, Debug, Serialize, Deserialize)]
pub struct BvhCase {
    pub mode: String,
    pub set: ElemSet,
    pub leaf: usize,
    pub rays: Vec<RaySpec>,
}

fn set_size() -> BoxedStrategy<usize> {
    prop_oneof![
        3 => 0usize..=4,
        3 => 25usize..=36,
        2 => 5usize..=24,
        3 => 37usize..=200,
    ]
    .boxed()
}

fn leaf_size() -> BoxedStrategy<usize> {
    prop_oneof![Just(1usize), Just(2usize), Just(4usize), Just(30usize)].boxed()
}

const DIR_SCALES: [f32; 8] = [1.0, 1.0, 1.0, 0.5, 1e-3, 1e-6, 1e-8, 1e3];

fn ray_spec() -> BoxedStrategy<RaySpec> {
    prop_oneof![
        // directions of any length (callers pass differences of points as well as unit vectors)
        2 => (position_box(60.0), direction(), 0usize..8).prop_map(|(o, d, k)| {
            let f = DIR_SCALES[k];
            RaySpec::Free(RayD { o, d: P3 { x: d.x * f, y: d.y * f, z: d.z * f } })
        }),
        5 => (any::<u16>(), position_box(80.0), 0u32..=100, 0u32..=100, 0u32..=100).prop_map(
            |(idx, o, fx, fy, fz)| RaySpec::Aimed {
                idx,
                o,
                fx: fx as f32 / 100.0,
                fy: fy as f32 / 100.0,
                fz: fz as f32 / 100.0
            }
        ),
    ]
    .boxed()
}

fn boxes_case() -> BoxedStrategy<BvhCase> {
    let normal = set_size()
        .prop_flat_map(|n| proptest::collection::vec(box_any(), n))
        .prop_map(|b| ("normal".to_string(), b));
    let dup = (box_any(), 1usize..=200).prop_map(|(b, k)| ("duplicates".to_string(), vec![b; k]));
    let shared = (position_box(30.0), proptest::collection::vec((dec2(0.1, 8.0), dec2(0.1, 8.0), dec2(0.0, 5.0)), 1..120))
        .prop_map(|(c, sizes)| {
            (
                "shared_centre".to_string(),
                sizes
                    .into_iter()
                    .map(|(sx, sy, sz)| BoxD {
                        min: P3 { x: c.x - sx, y: c.y - sy, z: c.z - sz },
                        max: P3 { x: c.x + sx, y: c.y + sy, z: c.z + sz },
                    })
                    .collect::<Vec<_>>(),
            )
        });
    let mixed = (box_any(), 1usize..=60, proptest::collection::vec(box_any(), 0..60)).prop_map(|(b, k, mut rest)| {
        let mut v = vec![b; k];
        v.append(&mut rest);
        ("dup_plus_random".to_string(), v)
    });
    (
        prop_oneof![5 => normal, 2 => dup, 2 => shared, 1 => mixed],
        leaf_size(),
        proptest::collection::vec(ray_spec(), 4..=10),
    )
        .prop_map(|((mode, b), leaf, rays)| BvhCase {
            mode,
            set: ElemSet::Boxes(b),
            leaf,
            rays,
        })
        .boxed()
}

fn polys_case() -> BoxedStrategy<BvhCase> {
    let normal = set_size()
        .prop_flat_map(|n| proptest::collection::vec(posed_poly(), n))
        .prop_map(|b| ("normal".to_string(), b));
    let dup = (posed_poly(), 1usize..=120).prop_map(|(b, k)| ("duplicates".to_string(), vec![b; k]));
    // surfaces meshed as two triangles (same pose, same bounding box, different elements), among other elements
    let meshed = (proptest::collection::vec((posed_poly(), any::<bool>()), 1..=40)).prop_map(|v| {
        let mut out = vec![];
        for (p, split) in v {
            let q = &p.polygon;
            if split && q.len() >= 4 {
                // fan of the first four corners: (0,1,2) and (0,2,3) share the diagonal 0-2
                let mut a = p.clone();
                a.polygon = vec![q[0].clone(), q[1].clone(), q[2].clone()];
                let mut b = p.clone();
                b.polygon = vec![q[0].clone(), q[2].clone(), q[3].clone()];
                out.push(a);
                out.push(b);
            } else {
                out.push(p);
            }
        }
        ("meshed".to_string(), out)
    });
    (
        prop_oneof![5 => normal, 2 => dup, 3 => meshed],
        leaf_size(),
        proptest::collection::vec(ray_spec(), 4..=10),
    )
        .prop_map(|((mode, b), leaf, rays)| BvhCase {
            mode,
            set: ElemSet::Polys(b),
            leaf,
            rays,
        })
        .boxed()
}

fn resolve_ray(spec: &RaySpec, set: &ElemSet) -> RayD {
    match spec {
        RaySpec::Free(r) => r.clone(),
        RaySpec::Aimed { idx, o, fx, fy, fz } => {
            let n = set.len();
            if n == 0 {
                return RayD {
                    o: o.clone(),
                    d: P3 { x: 0.0, y: 1.0, z: 0.0 },
                };
            }
            let i = (*idx as usize * n) >> 16;
            let target: [f64; 3] = match set {
                ElemSet::Boxes(b) => {
                    let b = &b[i];
                    [
                        b.min.x as f64 + *fx as f64 * (b.max.x - b.min.x) as f64,
                        b.min.y as f64 + *fy as f64 * (b.max.y - b.min.y) as f64,
                        b.min.z as f64 + *fz as f64 * (b.max.z - b.min.z) as f64,
                    ]
                }
                ElemSet::Polys(p) => {
                    let p = &p[i];
                    // a point inside the bounding box of the polygon, in the polygon plane
                    let (mut x0, mut x1, mut y0, mut y1) = (f64::MAX, f64::MIN, f64::MAX, f64::MIN);
                    for q in &p.polygon {
                        x0 = x0.min(q.x as f64);
                        x1 = x1.max(q.x as f64);
                        y0 = y0.min(q.y as f64);
                        y1 = y1.max(q.y as f64);
                    }
                    let lx = x0 + *fx as f64 * (x1 - x0);
                    let ly = y0 + *fy as f64 * (y1 - y0);
                    ora::to_global(p.tilt as f64, p.azimuth as f64, ora::v3(&p.position), [lx, ly, 0.0])
                }
            };
            let mut of = ora::v3(o);
            let d = ora::sub(target, of);
            let d = if ora::norm(d) < 1e-6 { [0.0, 1.0, 0.0] } else { ora::unit(d) };
            // one aimed ray in ten at a polygon starts a fraction of a millimetre to a few millimetres in front of the
            // plane (points of a surface lying just off another one: a window flush with a reveal, a shade touching a wall)
            let mut o = o.clone();
            if matches!(set, ElemSet::Polys(_)) && *fz >= 0.9 {
                let dist = [3e-4f64, 5e-4, 8e-4, 1.5e-3, 4e-3][(*idx as usize / 8) % 5];
                // distance measured along the ray
                of = [target[0] - dist * d[0], target[1] - dist * d[1], target[2] - dist * d[2]];
                o = P3 { x: of[0] as f32, y: of[1] as f32, z: of[2] as f32 };
            }
            let _ = of;
            // length of the direction vector: derived from the case (callers pass vectors of any length)
            let f = DIR_SCALES[(*idx as usize) % DIR_SCALES.len()] as f64;
            RayD {
                o,
                d: P3 { x: (d[0] * f) as f32, y: (d[1] * f) as f32, z: (d[2] * f) as f32 },
            }
        }
    }
}

fn to_ray(r: &RayD) -> Ray {
    Ray::new(point![r.o.x, r.o.y, r.o.z], vector![r.d.x, r.d.y, r.d.z])
}

fn bvh_answers<T: Bounded + Intersectable + Clone>(elems: Vec<T>, leaf: usize, rays: &[Ray]) -> Vec<(bool, bool)> {
    let bvh = BVH::build(elems.clone(), leaf);
    rays.iter()
        .map(|r| {
            let a = bvh.intersects(r).is_some();
            let b = elems.iter().any(|e| e.intersects(r).is_some());
            (a, b)
        })
        .collect()
}

/// Runs inside the worker process
pub fn worker(sub: &str, v: Value) -> Value {
    match sub {
        "C13.bvh" => {
            let case: BvhCase = serde_json::from_value(v).expect("case decodes");
            let rays: Vec<Ray> = case.rays.iter().map(|s| to_ray(&resolve_ray(s, &case.set))).collect();
            let res = match &case.set {
                ElemSet::Boxes(b) => bvh_answers(b.iter().map(|x| x.to_aabb()).collect::<Vec<_>>(), case.leaf, &rays),
                ElemSet::Polys(p) => bvh_answers(p.iter().map(|x| x.to_wallgeom()).collect::<Vec<_>>(), case.leaf, &rays),
            };
            json!(res)
        }
        _ => json!(null),
    }
}

fn check_bvh(h: &CaseH, case: &BvhCase) -> Verdict {
    let n = case.set.len();
    let kind = match case.set {
        ElemSet::Boxes(_) => "boxes",
        ElemSet::Polys(_) => "polys",
    };
    h.class(&format!("{}/{}", kind, case.mode));
    h.class(match n {
        0 => "size/0",
        1 => "size/1",
        _ if n <= case.leaf => "size/<=leaf",
        _ => "size/>leaf",
    });
    h.class(&format!("leaf/{}", case.leaf));
    let out = worker_call("C13.bvh", case, Duration::from_secs(10));
    let res: Vec<(bool, bool)> = match out {
        WorkerOut::Ok(v) => serde_json::from_value(v).unwrap_or_default(),
        WorkerOut::Panic(p) => return Verdict::from_panic("C13:bvh", &p),
        WorkerOut::Hang => {
            return Verdict::fail(
                "C13:bvh:does-not-terminate",
                format!("BVH::build/intersects did not return within 10 s (set of {} {}, leaf {})", n, kind, case.leaf),
            )
        }
        WorkerOut::Died(s) => {
            return Verdict::fail(
                "C13:bvh:process-died",
                format!("worker died ({}) on set of {} {}, leaf {}", s, n, kind, case.leaf),
            )
        }
    };
    h.evals(res.len() as u64);
    let mut any_hit = false;
    for (i, (a, b)) in res.iter().enumerate() {
        if *b {
            any_hit = true;
            h.class("ray/hit");
        } else {
            h.class("ray/miss");
        }
        if a != b {
            // polygons: the BVH consults the element's bounding box first, the element itself does not;
            // a crossing point within 1 mm of an outline is a don't-care (statement, second sentence)
            if let ElemSet::Polys(ps) = &case.set {
                let r = resolve_ray(&case.rays[i], &case.set);
                let undecided = ps.iter().any(|p| ora::ray_hits(p, &r, 1e-3) == ora::Hit::Undecided);
                if undecided {
                    h.class("ray/undecided-band");
                    continue;
                }
            }
            return Verdict::fail(
                format!("C13:bvh:differs-from-exhaustive:{}", if *b { "missed-hit" } else { "phantom-hit" }),
                format!(
                    "ray #{}: BVH says {}, testing every element says {} (set of {} {}, leaf {}, mode {})",
                    i, a, b, n, kind, case.leaf, case.mode
                ),
            );
        }
    }
    if n > case.leaf && any_hit {
        h.nontrivial(fp(case));
    }
    h.sample(|| json!({"kind": kind, "mode": case.mode, "n": n, "leaf": case.leaf, "rays": case.rays.len(), "first_ray": case.rays.first()}));
    Verdict::Pass
}

// ------------------------------------------------------------------ (b) polygon / ray

#[derive(Clone, Debug, Serialize, Deserialize)]
pub struct PolyRayCase {
    pub poly: PosedPoly,
    pub rays: Vec<RaySpec>,
}

fn poly_ray_case() -> BoxedStrategy<PolyRayCase> {
    (posed_poly(), proptest::collection::vec(ray_spec(), 6..=12))
        .prop_map(|(poly, rays)| PolyRayCase { poly, rays })
        .boxed()
}

fn check_poly_ray(h: &CaseH, c: &PolyRayCase) -> Verdict {
    let wg = c.poly.to_wallgeom();
    let set = ElemSet::Polys(vec![c.poly.clone()]);
    // bounding box contains all transformed corners
    let bb = wg.aabb();
    for g in ora::global_corners(&c.poly) {
        let tol = 1e-4 * (1.0 + g[0].abs().max(g[1].abs()).max(g[2].abs()) / 10.0);
        let inside = g[0] >= bb.min.x as f64 - tol
            && g[0] <= bb.max.x as f64 + tol
            && g[1] >= bb.min.y as f64 - tol
            && g[1] <= bb.max.y as f64 + tol
            && g[2] >= bb.min.z as f64 - tol
            && g[2] <= bb.max.z as f64 + tol;
        crate::vensure!(inside, "C13:aabb:corner-outside", "corner {:?} of the posed polygon lies outside its bounding box {:?}", g, bb);
    }
    let mut decided_in_bbox = false;
    for (i, spec) in c.rays.iter().enumerate() {
        let r = resolve_ray(spec, &set);
        let code = wg.intersects(&to_ray(&r));
        let exact = ora::ray_hits(&c.poly, &r, 1e-3);
        h.evals(1);
        match exact {
            ora::Hit::Undecided => {
                h.class("undecided");
            }
            ora::Hit::Yes(t) => {
                h.class("hit");
                if t < 1e-3 {
                    h.class("hit/origin-within-1mm-of-the-plane");
                }
                decided_in_bbox = true;
                match code {
                    None => {
                        return Verdict::fail(
                            "C13:poly:missed-hit",
                            format!("ray #{} crosses the polygon at t={:.4} (> 1 mm inside) but WallGeom::intersects is None", i, t),
                        )
                    }
                    Some(tc) => {
                        // conditioning of t = -z/(n.d) in f32: errors of ~1e-5 m in the plane distance and
                        // ~4e-7 in n.d are amplified by 1/|n.d|
                        let nd = {
                            let d = ora::unit(ora::v3(&r.d));
                            ora::dir_to_local(c.poly.tilt as f64, c.poly.azimuth as f64, d)[2].abs()
                        };
                        let tol = 1e-3 * t.abs().max(1.0) + (2e-5 + 4e-7 * t.abs()) / nd.max(1e-9);
                        if (tc as f64 - t).abs() > tol {
                            return Verdict::fail(
                                "C13:poly:wrong-t",
                                format!("ray #{}: t={} reported, exact {:.5}", i, tc, t),
                            );
                        }
                    }
                }
            }
            ora::Hit::No => {
                h.class("miss");
                if matches!(spec, RaySpec::Aimed { .. }) {
                    decided_in_bbox = true;
                }
                if let Some(tc) = code {
                    return Verdict::fail(
                        "C13:poly:phantom-hit",
                        format!("ray #{}: WallGeom::intersects = Some({}) but the exact crossing is outside the polygon or behind the origin", i, tc),
                    );
                }
            }
        }
    }
    let t = c.poly.tilt;
    h.class(if t == 0.0 || t == 90.0 || t == 180.0 { "pose/axis" } else { "pose/oblique" });
    h.class(if ora::shoelace(&c.poly.polygon) < 0.0 { "poly/cw" } else { "poly/ccw" });
    if decided_in_bbox {
        h.nontrivial(fp(c));
    }
    h.sample(|| json!({"poly": c.poly, "ray0": c.rays.first()}));
    Verdict::Pass
}

pub fn run(args: &Args) -> ! {
    let ctx = Ctx::new(ID, "exploration", args);
    let t = ctx.tier();
    ctx.rule("bvh: generated sets of 0..200 boxes / posed polygons (random, k duplicates, shared centre, flat boxes) x leaf in {1,2,4,30} x 4-10 rays (free, axis-parallel, aimed at an element); built and queried in a worker process under a 10 s watchdog; oracle = test every element. Non-trivial: set larger than the leaf size and at least one ray hits.");
    ctx.rule("poly_ray: simple polygons with 3-12 corners (rectangles, star-shaped, L) in random poses x rays (free, or aimed at a point of the polygon's bounding rectangle; one aimed ray in ten starts 0.3 to 4 mm in front of the plane, measured along the ray); oracle = exact f64 ray/plane/even-odd with a 1 mm (or 1e-5/|n.d|) don't-care band; bounding box contains every exact corner. Non-trivial: a decided crossing inside the polygon's bounding box.");
    ctx.assume("rustc/std f64 arithmetic; proptest RNG and shrinker; serde_json for the worker protocol");
    ctx.replay_regressions(replay_one);
    ctx.run_prop("bvh_boxes", t.pick(150_000, 2_000_000), boxes_case, check_bvh);
    ctx.run_prop("bvh_polys", t.pick(60_000, 1_000_000), polys_case, check_bvh);
    ctx.run_prop("poly_ray", t.pick(1_000_000, 10_000_000), poly_ray_case, check_poly_ray);
    for c in ["bvh_boxes/size/0", "bvh_boxes/size/<=leaf", "bvh_boxes/size/>leaf", "bvh_boxes/boxes/duplicates", "bvh_boxes/boxes/shared_centre", "bvh_boxes/ray/hit", "bvh_boxes/ray/miss", "poly_ray/hit", "poly_ray/miss", "poly_ray/hit/origin-within-1mm-of-the-plane"] {
        ctx.require_class(c);
    }
    super::c13b::run_reveals(&ctx);
    if t == crate::engine::Tier::Thorough {
        use crate::fuzz::{self, Campaign};
        ctx.rule("fuzz:bvh (thorough): libFuzzer campaign (16 processes x fixed -runs, -seed from the seed, corpus of pseudo-random byte strings) over bytes decoded into (0..240 boxes on a 1 cm grid with frequent exact duplicates, leaf in {1,2,4,30}, 6 rays free or aimed at a box centre); oracle inside the target: BVH answer = testing every box; a panic, a hang (10 s, confirmed alone at 30 s) or a different answer is a violation. Non-trivial: every executed input (the decoder accepts all byte strings).");
        if fuzz::build(&ctx) {
            let seeds: Vec<(String, Vec<u8>)> = (0..16u64)
                .map(|k| {
                    let len = 40 + (crate::engine::mix(ctx.seed(), "C13/fuzz-seed-len", k) % 1500) as usize;
                    let bytes: Vec<u8> = (0..len).map(|j| (crate::engine::mix(ctx.seed(), "C13/fuzz-seed", k * 4096 + j as u64) >> 24) as u8).collect();
                    (format!("random-{}", k), bytes)
                })
                .collect();
            fuzz::run(
                &ctx,
                &Campaign {
                    sub: "fuzz:bvh",
                    target: "bvh",
                    sig_prefix: "C13:bvh:",
                    procs: 16,
                    runs_per_proc: 400_000,
                    max_len: 2_000,
                    only_ascii: false,
                    seeds,
                    dict: vec![],
                    timeout_s: 10,
                    nontrivial_classes: &["exec"],
                },
            );
            ctx.require_class("fuzz:bvh/exec");
        }
    }
    ctx.finish()
}

pub fn replay_one(ctx: &Ctx, doc: &ReplayDoc) {
    match doc.sub.as_str() {
        "bvh_boxes" | "bvh_polys" => crate::engine::replay_case::<BvhCase>(ctx, &doc.sub, &doc.case, check_bvh),
        "poly_ray" => crate::engine::replay_case::<PolyRayCase>(ctx, &doc.sub, &doc.case, check_poly_ray),
        "reveals" => crate::engine::replay_case::<super::c13b::RevealCase>(ctx, &doc.sub, &doc.case, super::c13b::check_reveal),
        s => ctx.infra_error(format!("unknown sub {}", s)),
    }
}
