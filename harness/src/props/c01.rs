//! C01 — the export tool writes exactly the model JSON to standard output (process level).

use std::path::{Path, PathBuf};
use std::process::{Command, Stdio};

use proptest::prelude::*;
use serde::{Deserialize, Serialize};
use serde_json::{json, Value};

use bemodel::Model;

use crate::engine::{catch, fnv64, fp, Args, CaseH, Ctx, ReplayDoc, Verdict};
use crate::gen::building::{self as gb, Bld, WallKind};
use crate::{vensure, vfail};

fn bin_dir() -> PathBuf {
    crate::engine::target_dir().join("repo-bins")
}
fn tmp_dir() -> PathBuf {
    crate::engine::target_dir().join("tmp").join("c01")
}

fn build_bins() -> Result<(), String> {
    let out = Command::new("cargo")
        .args(["build", "--offline", "--manifest-path", "/repo/Cargo.toml", "-p", "hulc2model", "-p", "bemodel", "--bins"])
        .env("CARGO_TARGET_DIR", bin_dir())
        .env("CARGO_NET_OFFLINE", "true")
        .output()
        .map_err(|e| e.to_string())?;
    if !out.status.success() {
        return Err(String::from_utf8_lossy(&out.stderr).lines().filter(|l| l.starts_with("error")).take(5).collect::<Vec<_>>().join(" | "));
    }
    Ok(())
}

fn bin(name: &str) -> PathBuf {
    bin_dir().join("debug").join(name)
}

#[derive(Clone, Debug, Serialize, Deserialize)]
pub enum Dir {
    Shipped(String),
    /// extra: 0 = project file only; 1 = KyGananciasSolares.txt + NewBDL_O.tbl covering every element (wall and
    /// window records); 2 = a KyGananciasSolares.txt with window records only and no .tbl (so that the result
    /// files change windows but no wall)
    Generated { b: Box<Bld>, extra: u8 },
    Empty,
    Unrelated,
}

#[derive(Clone, Debug, Serialize, Deserialize)]
pub struct RunCase {
    pub dir: Dir,
    pub use_extra: bool,
    /// value of RUST_LOG for the tool (None = unset)
    pub rust_log: Option<String>,
}

fn shipped_dirs() -> Vec<String> {
    let mut v: Vec<String> = crate::util::files_with_ext(Path::new("/repo/hulc_tests/tests"), &["ctehexml"]).into_iter().filter_map(|p| p.parent().map(|d| d.to_string_lossy().to_string())).collect();
    v.sort();
    v.dedup();
    v
}

/// KyG and tbl files covering the generated elements (what HULC leaves next to the project)
fn extra_files(b: &Bld, windows_only: bool) -> (String, String) {
    let mut kyg = vec!["###;Datos para Factor de Pérdidas".to_string()];
    let mut elems: Vec<(String, &'static str)> = vec![];
    for (_, s) in b.all_spaces() {
        for w in &s.walls {
            let code = match w.kind {
                WallKind::Interior { .. } => "-4",
                WallKind::Adiabatic => "-2",
                WallKind::Underground => "-3",
                _ => "0",
            };
            elems.push((w.name.clone(), code));
            if !windows_only {
                kyg.push(format!("Muro;{};10.00;0.75;1.00;Fachada;S ;cons", w.name));
            }
            for win in &w.windows {
                kyg.push(format!("Ventana;{};1.00;2.50;S ;10.00;0.70;-1.00;1.00;27.00;hueco", win.name));
            }
        }
    }
    kyg.push("Coeficiente K = ;0,750".into());
    kyg.push("###;Datos para Factor de Insolación".into());
    let mut k = 0u32;
    for (_, s) in b.all_spaces() {
        for w in &s.walls {
            for win in &w.windows {
                // obstruction factors 0.75, 0.70, 0.65 ... differ from window to window
                k += 1;
                let h3 = 60000.0 - 4000.0 * ((k % 8) as f32);
                if (k + b.salt) % 7 == 3 {
                    // a window that receives no radiation at all (HULC writes zeros): 0/0 in the reader
                    kyg.push(format!("\"{}\"; 180.000000; 1.000000; 0.000000; 0.000000; 0.000000; 0.000000; 0.000000", win.name));
                } else {
                    kyg.push(format!("\"{}\"; 180.000000; 1.000000; 80000.000000; 70000.000000; 60000.000000; {:.6}; 1000.000000", win.name, h3));
                }
            }
        }
    }
    kyg.push("###;Fin".into());
    let mut tbl = vec!["Nombre".to_string(), " A U p f fv angNorte tilt tipo codigo0 codigo1".to_string(), format!("{} {}", elems.len().max(1), 0)];
    if elems.is_empty() {
        tbl.push("\"nada\"".into());
        tbl.push(" 1.000000 1.000000 1.000000 0.000000 0.000000 0.000000 90.000000 0 0 -1".into());
    }
    for (i, (n, code)) in elems.iter().enumerate() {
        tbl.push(format!("\"{}\"", n));
        tbl.push(format!(" 10.000000 0.820000 200.000000 0.000000 0.000000 0.000000 90.000000 {} {} -1", code, i));
    }
    (kyg.join("\r\n") + "\r\n", tbl.join("\r\n") + "\r\n")
}

fn materialise(d: &Dir, tag: u64) -> Option<PathBuf> {
    match d {
        Dir::Shipped(p) => Some(PathBuf::from(p)),
        Dir::Generated { b, extra } => {
            let dir = tmp_dir().join(format!("g{:016x}", tag));
            let _ = std::fs::remove_dir_all(&dir);
            std::fs::create_dir_all(&dir).ok()?;
            let sys = gb::shipped_systems_sections();
            std::fs::write(dir.join("proyecto.ctehexml"), gb::print_ctehexml(b, &sys)).ok()?;
            if *extra > 0 {
                let (k, t) = extra_files(b, *extra == 2);
                // the tools read these two files as Latin-1
                let lat = |s: &str| s.chars().map(|c| if (c as u32) < 256 { c as u8 } else { b'?' }).collect::<Vec<u8>>();
                std::fs::write(dir.join("KyGananciasSolares.txt"), lat(&k)).ok()?;
                if *extra == 1 {
                    std::fs::write(dir.join("NewBDL_O.tbl"), lat(&t)).ok()?;
                }
            }
            Some(dir)
        }
        Dir::Empty => {
            let dir = tmp_dir().join(format!("e{:016x}", tag));
            let _ = std::fs::remove_dir_all(&dir);
            std::fs::create_dir_all(&dir).ok()?;
            Some(dir)
        }
        Dir::Unrelated => {
            let dir = tmp_dir().join(format!("u{:016x}", tag));
            let _ = std::fs::remove_dir_all(&dir);
            std::fs::create_dir_all(&dir).ok()?;
            std::fs::write(dir.join("notas.txt"), "nada que ver\n").ok()?;
            std::fs::write(dir.join("modelo.json"), "{}\n").ok()?;
            Some(dir)
        }
    }
}

/// strict reader: exactly one JSON value followed only by whitespace
fn exactly_one_json(bytes: &[u8]) -> Result<Value, String> {
    let text = std::str::from_utf8(bytes).map_err(|e| format!("stdout is not UTF-8: {}", e))?;
    let mut it = serde_json::Deserializer::from_str(text).into_iter::<Value>();
    let first = match it.next() {
        Some(Ok(v)) => v,
        Some(Err(e)) => return Err(format!("stdout does not start with a JSON value ({}); it starts with {:?}", e, text.chars().take(80).collect::<String>())),
        None => return Err("stdout is empty".into()),
    };
    let off = it.byte_offset();
    let rest = &text[off..];
    if !rest.trim().is_empty() {
        return Err(format!("{} bytes follow the JSON document, starting with {:?}", rest.len(), rest.trim_start().chars().take(80).collect::<String>()));
    }
    // nothing before it either: the first non-blank byte opens the value
    if !text.trim_start().starts_with('{') {
        return Err(format!("stdout starts with {:?}", text.chars().take(80).collect::<String>()));
    }
    Ok(first)
}

fn check_run(h: &CaseH, c: &RunCase) -> Verdict {
    let tag = fnv64(format!("{:?}{:?}", std::thread::current().id(), fp(c)).as_bytes());
    let dir = match materialise(&c.dir, tag) {
        Some(d) => d,
        None => return Verdict::Pass,
    };
    let dirs = dir.to_string_lossy().to_string();
    let cleanup = |d: &Path| {
        if d.starts_with(tmp_dir()) {
            let _ = std::fs::remove_dir_all(d);
        }
    };
    // reference: the library conversion of the same directory (in this process)
    let lib = catch(|| hulc2model::collect_hulc_data(&dirs, c.use_extra, c.use_extra));
    let mut cmd = Command::new(bin("hulc2model"));
    if c.use_extra {
        cmd.arg("--use-extra");
    }
    cmd.arg(&dirs).stdin(Stdio::null());
    cmd.env_remove("RUST_LOG").env_remove("RUST_BACKTRACE");
    if let Some(l) = &c.rust_log {
        cmd.env("RUST_LOG", l);
    }
    let out = match cmd.output() {
        Ok(o) => o,
        Err(e) => {
            cleanup(&dir);
            vfail!("C01:cannot-run-tool", "hulc2model cannot be started: {}", e)
        }
    };
    let what = format!(
        "hulc2model {}{} (RUST_LOG={:?})",
        if c.use_extra { "--use-extra " } else { "" },
        match &c.dir {
            Dir::Shipped(p) => p.trim_start_matches("/repo/hulc_tests/tests/").to_string(),
            Dir::Generated { extra, .. } => format!("<generated project{}>", ["", " with KyG/tbl", " with a windows-only KyG"][(*extra as usize).min(2)]),
            Dir::Empty => "<empty directory>".into(),
            Dir::Unrelated => "<directory without project>".into(),
        },
        c.rust_log
    );
    let v = (|| -> Verdict {
        match (&c.dir, &lib) {
            (Dir::Empty | Dir::Unrelated, _) => {
                h.class("no-project");
                vensure!(!out.status.success(), "C01:no-project:exit-0", "{}: exits with status 0 although there is no project", what);
                let has_json = serde_json::Deserializer::from_slice(&out.stdout).into_iter::<Value>().next().map_or(false, |r| r.is_ok());
                vensure!(!has_json, "C01:no-project:json-on-stdout", "{}: writes JSON to stdout although there is no project", what);
                h.nontrivial(fp(c));
                Verdict::Pass
            }
            (_, Ok(Ok(model))) => {
                h.class("convertible");
                vensure!(out.status.success(), "C01:exit-status", "{}: the library converts the directory but the tool exits with {:?}; stderr ends with {:?}", what, out.status.code(), String::from_utf8_lossy(&out.stderr).lines().last().unwrap_or(""));
                let v = match exactly_one_json(&out.stdout) {
                    Ok(v) => v,
                    Err(e) => vfail!("C01:stdout-not-exactly-one-json", "{}: {}", what, e),
                };
                let m2: Model = match serde_json::from_value(v) {
                    Ok(m) => m,
                    Err(e) => vfail!("C01:stdout-not-a-model", "{}: the JSON on stdout does not load as a model: {}", what, e),
                };
                let (a, b) = (m2.as_json().unwrap_or_default(), model.as_json().unwrap_or_default());
                vensure!(a == b, "C01:model-differs-from-library", "{}: the model on stdout differs from collect_hulc_data() for the same directory (JSON lengths {} / {})", what, a.len(), b.len());
                // field by field, independent of the serialiser (which both sides above went through)
                if let Err(d) = crate::props::model_props::same_model(&m2, model) {
                    vfail!("C01:loaded-model-differs-from-library", "{}: the document on stdout loads as a model that differs from collect_hulc_data() for the same directory: {}", what, d);
                }
                if c.use_extra {
                    match (model.overrides.walls.is_empty(), model.overrides.windows.is_empty()) {
                        (true, false) => h.class("overrides/windows-only"),
                        (false, true) => h.class("overrides/walls-only"),
                        (false, false) => h.class("overrides/both"),
                        _ => h.class("overrides/none"),
                    }
                }
                if model.meta.name.is_empty() {
                    h.class("unnamed-project");
                }
                // the same directory again after an in-place edit of the project file that keeps its length (an
                // editor saving a changed number): tool and library must both see the new content
                if let Dir::Generated { .. } = &c.dir {
                    let pf = dir.join("proyecto.ctehexml");
                    if let Ok(txt) = std::fs::read_to_string(&pf) {
                        let tag = "<valorImpulsionAire>";
                        if let Some(a) = txt.find(tag) {
                            let start = a + tag.len();
                            if let Some(len) = txt[start..].find('<') {
                                let old = &txt[start..start + len];
                                let new: String = old.chars().rev().enumerate().map(|(i, ch)| if i == 0 && ch.is_ascii_digit() { char::from(b'0' + (ch as u8 - b'0' + 5) % 10) } else { ch }).collect::<Vec<_>>().into_iter().rev().collect();
                                if new.len() == old.len() && new != old {
                                    let edited = format!("{}{}{}", &txt[..start], new, &txt[start + len..]);
                                    if std::fs::write(&pf, &edited).is_ok() {
                                        let lib2 = catch(|| hulc2model::collect_hulc_data(&dirs, c.use_extra, c.use_extra));
                                        let mut cmd2 = Command::new(bin("hulc2model"));
                                        if c.use_extra {
                                            cmd2.arg("--use-extra");
                                        }
                                        cmd2.arg(&dirs).stdin(Stdio::null()).env_remove("RUST_LOG").env_remove("RUST_BACKTRACE");
                                        if let (Ok(Ok(model2)), Ok(out2)) = (lib2, cmd2.output()) {
                                            if let Ok(v2) = exactly_one_json(&out2.stdout) {
                                                if let Ok(t2) = serde_json::from_value::<Model>(v2) {
                                                    h.class("same-length-rewrite-compared");
                                                    if let Err(d) = crate::props::model_props::same_model(&t2, &model2) {
                                                        vfail!("C01:rewritten-project:tool-differs-from-library", "{}: after rewriting one number of the project file in place (same length) the tool's model differs from the library conversion of the same directory: {}", what, d);
                                                    }
                                                    vensure!((model2.meta.global_ventilation_l_s.unwrap_or(-1.0) - model.meta.global_ventilation_l_s.unwrap_or(-1.0)).abs() > 1e-6 || !model.meta.is_dwelling, "C01:rewritten-project:library-sees-old-content", "{}: the library conversion after the in-place edit still has the old ventilation flow {:?}", what, model2.meta.global_ventilation_l_s);
                                                }
                                            }
                                        }
                                    }
                                }
                            }
                        }
                    }
                }
                if !model.walls.is_empty() && !model.windows.is_empty() {
                    h.nontrivial(fp(c));
                }
                Verdict::Pass
            }
            (_, _) => {
                // the library cannot convert it: outside the quantifier
                h.class("library-cannot-convert(not asserted)");
                Verdict::Pass
            }
        }
    })();
    cleanup(&dir);
    h.sample(|| json!({"run": what, "exit": out.status.code(), "stdout_bytes": out.stdout.len(), "stderr_bytes": out.stderr.len()}));
    v
}

// ---- thor -o

#[derive(Clone, Debug, Serialize, Deserialize)]
pub struct ThorCase {
    /// .ctehexml files converted one after the other into the SAME output path
    pub files: Vec<String>,
    pub generated: Option<Box<Bld>>,
}

fn check_thor(h: &CaseH, c: &ThorCase) -> Verdict {
    let tag = fnv64(format!("{:?}{:?}", std::thread::current().id(), fp(c)).as_bytes());
    let dir = tmp_dir().join(format!("t{:016x}", tag));
    let _ = std::fs::remove_dir_all(&dir);
    if std::fs::create_dir_all(&dir).is_err() {
        return Verdict::Pass;
    }
    let mut files = c.files.clone();
    if let Some(b) = &c.generated {
        let p = dir.join("gen.ctehexml");
        let _ = std::fs::write(&p, gb::print_ctehexml(b, &gb::shipped_systems_sections()));
        files.push(p.to_string_lossy().to_string());
    }
    let outp = dir.join("salida.json");
    let v = (|| -> Verdict {
        for (i, f) in files.iter().enumerate() {
            let expect = catch(|| hulc::ctehexml::parse_with_catalog_from_path(f).and_then(|d| Model::try_from(&d)).and_then(|m| m.as_json()));
            let expect = match expect {
                Ok(Ok(j)) => j,
                _ => {
                    h.class("library-cannot-convert(not asserted)");
                    continue;
                }
            };
            let out = Command::new(bin("thor")).arg(f).arg("-o").arg(&outp).env_remove("RUST_LOG").stdin(Stdio::null()).output();
            let out = match out {
                Ok(o) => o,
                Err(e) => vfail!("C01:cannot-run-tool", "thor cannot be started: {}", e),
            };
            let what = format!("thor {} -o OUT (run #{} into the same OUT)", f.trim_start_matches("/repo/hulc_tests/tests/"), i + 1);
            vensure!(out.status.success(), "C01:thor:exit-status", "{}: exits with {:?}", what, out.status.code());
            let got = std::fs::read_to_string(&outp).unwrap_or_default();
            if let (Ok(Ok(lm)), Ok(fm)) = (catch(|| hulc::ctehexml::parse_with_catalog_from_path(f).and_then(|d| Model::try_from(&d))), Model::from_json(&got)) {
                if let Err(d) = crate::props::model_props::same_model(&fm, &lm) {
                    vfail!("C01:thor:loaded-model-differs-from-library", "{}: OUT loads as a model that differs from the library conversion: {}", what, d);
                }
            }
            vensure!(got == expect, "C01:thor:file-is-not-the-model-json", "{}: OUT ({} bytes) is not the JSON of the converted model ({} bytes){}", what, got.len(), expect.len(), if got.starts_with(&expect) { ": the model JSON is followed by left-overs of the previous content" } else { "" });
            // same model as the export tool's default mode, apart from the `extra` diagnostics it appends
            if f.starts_with("/repo/") {
                let d = Path::new(f).parent().unwrap().to_string_lossy().to_string();
                if let Ok(Ok(mut m)) = catch(|| hulc2model::collect_hulc_data(&d, false, false)) {
                    m.extra = None;
                    vensure!(m.as_json().unwrap_or_default() == expect, "C01:thor-vs-hulc2model", "{}: differs from the export tool's model (without `extra`)", what);
                }
            }
            h.evals(1);
        }
        if files.len() >= 2 {
            h.nontrivial(fp(c));
            h.class("output-file-reused");
        }
        Verdict::Pass
    })();
    let _ = std::fs::remove_dir_all(&dir);
    h.sample(|| json!({"files": files.iter().map(|f| f.trim_start_matches("/repo/hulc_tests/tests/").to_string()).collect::<Vec<_>>()}));
    v
}

pub fn run(args: &Args) -> ! {
    let ctx = Ctx::new("C01", "exploration", args);
    ctx.rule("process level: the binaries hulc2model and thor built from /repo's working tree; directories: the 12 shipped projects, generated buildings written as .ctehexml (systems sections transplanted from shipped projects; named and unnamed; without result files, with KyGananciasSolares.txt + NewBDL_O.tbl covering the generated elements, or with a KyGananciasSolares.txt that has window records only), an empty directory and a directory with unrelated files; x {default, --use-extra} x RUST_LOG in {unset, info, warn}. Oracle: exit status 0 and stdout = exactly one JSON value followed only by whitespace (strict streaming reader), which loads as a model equal field by field (Debug text, independent of serde) to hulc2model::collect_hulc_data for the same directory and whose JSON equals that model's JSON (reference computed in the harness process; directories the library cannot convert are counted, not asserted); no project: exit != 0 and no JSON on stdout; thor FILE -o OUT: exit 0 and OUT equals the model JSON, also when OUT already holds a longer earlier result, and equals the export tool's model without `extra`. Non-trivial: project with walls and windows; output file reused.");
    ctx.assume("dev-profile binaries (same sources; the release profile only changes panic=abort/LTO)");
    if let Err(e) = build_bins() {
        ctx.infra_error(format!("cannot build the repository's binaries: {}", e));
        ctx.finish();
    }
    let _ = std::fs::create_dir_all(tmp_dir());
    ctx.replay_regressions(replay_one);
    let mut cases = vec![];
    for d in shipped_dirs() {
        for use_extra in [false, true] {
            for rl in [None, Some("info".to_string()), Some("warn".to_string())] {
                cases.push(RunCase { dir: Dir::Shipped(d.clone()), use_extra, rust_log: rl });
            }
        }
    }
    for d in [Dir::Empty, Dir::Unrelated] {
        for use_extra in [false, true] {
            cases.push(RunCase { dir: d.clone(), use_extra, rust_log: None });
        }
    }
    ctx.run_enum("shipped_and_negative", &cases, true, check_run);
    ctx.run_prop(
        "generated",
        ctx.tier().pick(144, 1_600),
        || (gb::bld(), 0u8..3, prop_oneof![1 => Just(false), 2 => Just(true)], prop_oneof![Just(None), Just(Some("info".to_string())), Just(Some("warn".to_string()))], 0u8..6).prop_map(|(mut b, extra, use_extra, rust_log, short)| {
            // one project in six has a yearly schedule that stops before 31 December (a hand-edited file): the
            // library converts it (the year is simply shorter), so the tool has to export it as well
            if short == 0 {
                // two occupancy profiles: one follows a full year, the other the shortened one; the spaces alternate
                // between them
                if b.years.len() < 2 {
                    let mut y = b.years[0].clone();
                    y.name = "HA_9".into();
                    b.years.push(y);
                }
                let ny = b.years.len();
                let target = |k: usize, n: usize| -> u16 { (((k as u32) * 65536 + 32768) / n as u32).min(65535) as u16 };
                let short_idx = ny - 1;
                if b.years[short_idx].periods.len() < 2 {
                    b.years[short_idx].periods = vec![(6, 30, 0), (12, 31, 0)];
                }
                b.years[short_idx].periods.pop();
                if b.space_conds.len() < 2 {
                    let mut c2 = b.space_conds[0].clone();
                    c2.name = "Uso 9".into();
                    b.space_conds.push(c2);
                }
                let nc = b.space_conds.len();
                b.space_conds[0].people_sch = target(0, ny);
                b.space_conds[0].area_per_person = 10.0;
                b.space_conds[nc - 1].people_sch = target(short_idx, ny);
                b.space_conds[nc - 1].area_per_person = 12.0;
                let mut k = 0usize;
                for fl in b.floors.iter_mut() {
                    for sp in fl.spaces.iter_mut() {
                        sp.space_conds = Some(if k % 2 == 0 { target(nc - 1, nc) } else { target(0, nc) });
                        sp.stype = "CONDITIONED".into();
                        sp.insidete = Some(true);
                        k += 1;
                    }
                }
            }
            RunCase { dir: Dir::Generated { b: Box::new(b), extra }, use_extra, rust_log }
        }),
        check_run,
    );
    // thor: big project then small one into the same file, and every shipped project alone
    let files: Vec<String> = crate::util::files_with_ext(Path::new("/repo/hulc_tests/tests"), &["ctehexml"]).into_iter().map(|p| p.to_string_lossy().to_string()).collect();
    let mut by_size = files.clone();
    by_size.sort_by_key(|f| std::cmp::Reverse(std::fs::metadata(f).map(|m| m.len()).unwrap_or(0)));
    let mut thor_cases: Vec<ThorCase> = files.iter().map(|f| ThorCase { files: vec![f.clone()], generated: None }).collect();
    thor_cases.push(ThorCase { files: by_size.iter().take(4).cloned().chain(by_size.iter().rev().take(2).cloned()).collect(), generated: None });
    thor_cases.push(ThorCase { files: vec![by_size[0].clone(), by_size[by_size.len() - 1].clone()], generated: None });
    ctx.run_enum("thor", &thor_cases, true, check_thor);
    ctx.run_prop("thor_generated", ctx.tier().pick(16, 300), || (gb::bld(), 0usize..12).prop_map(move |(b, i)| ThorCase { files: vec![], generated: Some(Box::new(b)) }.with_first(i)), check_thor);
    for c in ["shipped_and_negative/convertible", "shipped_and_negative/no-project", "generated/convertible", "generated/overrides/windows-only", "generated/overrides/both", "generated/unnamed-project", "generated/same-length-rewrite-compared", "thor/output-file-reused"] {
        ctx.require_class(c);
    }
    ctx.finish()
}

impl ThorCase {
    /// a shipped (large) project first, then the generated one into the same output file
    fn with_first(mut self, i: usize) -> ThorCase {
        let files: Vec<String> = crate::util::files_with_ext(Path::new("/repo/hulc_tests/tests"), &["ctehexml"]).into_iter().map(|p| p.to_string_lossy().to_string()).collect();
        if !files.is_empty() {
            self.files = vec![files[i % files.len()].clone()];
        }
        self
    }
}

pub fn replay_one(ctx: &Ctx, doc: &ReplayDoc) {
    use crate::engine::replay_case;
    if build_bins().is_err() {
        ctx.infra_error("cannot build the repository's binaries".into());
        return;
    }
    match doc.sub.as_str() {
        "shipped_and_negative" | "generated" => replay_case::<RunCase>(ctx, &doc.sub, &doc.case, check_run),
        "thor" | "thor_generated" => replay_case::<ThorCase>(ctx, &doc.sub, &doc.case, check_thor),
        s => ctx.infra_error(format!("unknown sub {}", s)),
    }
}
