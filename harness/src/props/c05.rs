//! C05 — export and indicators are deterministic, reproducible and history-independent.

use std::collections::BTreeMap;
use std::sync::{Arc, Barrier};
use std::time::Duration;

use proptest::prelude::*;
use serde::{Deserialize, Serialize};
use serde_json::{json, Value};

use bemodel::Model;
use hulc::ctehexml;

use crate::engine::{catch, fnv64, fp, mix, worker_call, worker_reset, Args, CaseH, Ctx, ReplayDoc, Verdict, WorkerOut};
use crate::gen::building::{self as gb, Bld};
use crate::gen::model::{self, Params, Plan};
use crate::{vensure, vfail};

// ------------------------------------------------------------------ project sources

#[derive(Clone, Debug, Serialize, Deserialize, PartialEq)]
pub enum Proj {
    File(String),
    Text(String),
    /// project directory exported with HULC's result files (the export tool's --use-extra mode)
    DirExtra(String),
    /// shipped project file with its BUILD-PARAMETERS block left out (the building's deviation from north then
    /// takes its default, 0)
    FileNoBuildParams(String),
}

/// the text without the `"..." = BUILD-PARAMETERS` block (its lines up to and including the closing `..`)
fn without_build_parameters(text: &str) -> String {
    let mut out = String::with_capacity(text.len());
    let mut skipping = false;
    for l in text.split_inclusive('\n') {
        let t = l.trim();
        if !skipping && t.starts_with('"') && t.split_once('=').map_or(false, |(_, v)| v.trim() == "BUILD-PARAMETERS") {
            skipping = true;
            continue;
        }
        if skipping {
            if t == ".." || t.ends_with("..") {
                skipping = false;
            }
            continue;
        }
        out.push_str(l);
    }
    out
}

fn real_projects() -> Vec<String> {
    crate::util::files_with_ext(std::path::Path::new("/repo/hulc_tests/tests"), &["ctehexml"]).into_iter().map(|p| p.to_string_lossy().to_string()).collect()
}

fn project_text(p: &Proj) -> String {
    match p {
        Proj::File(f) => std::fs::read_to_string(f).unwrap_or_default(),
        Proj::Text(t) => t.clone(),
        Proj::FileNoBuildParams(f) => without_build_parameters(&std::fs::read_to_string(f).unwrap_or_default()),
        Proj::DirExtra(d) => crate::util::files_with_ext(std::path::Path::new(d), &["ctehexml"]).first().and_then(|f| std::fs::read_to_string(f).ok()).unwrap_or_default(),
    }
}

fn convert(p: &Proj) -> Result<Model, String> {
    if let Proj::DirExtra(dir) = p {
        return hulc2model::collect_hulc_data(dir, true, true).map_err(|e| format!("collect: {}", e));
    }
    let d = ctehexml::parse_with_catalog(&project_text(p)).map_err(|e| format!("parse: {}", e))?;
    Model::try_from(&d).map_err(|e| format!("convert: {}", e))
}

fn json_of(p: &Proj) -> Result<String, String> {
    convert(p)?.as_json().map_err(|e| e.to_string())
}

// ------------------------------------------------------------------ indicator model specs

#[derive(Clone, Debug, Serialize, Deserialize)]
pub enum Spec {
    /// shipped model file; `stripped`: same ids, shades removed and setbacks zeroed (an edited variant)
    Shipped {
        name: String,
        stripped: bool,
        /// same ids, every daily schedule value halved (an edited use profile)
        #[serde(default)]
        halved: bool,
    },
    Plan { plan: Box<Plan>, without_shades: bool },
}

fn spec_model(s: &Spec) -> Model {
    match s {
        Spec::Shipped { name, stripped, halved } => {
            let txt = std::fs::read_to_string(format!("/repo/bemodel/tests/data/{}", name)).unwrap_or_default();
            let mut m = Model::from_json(&txt).expect("shipped model loads");
            if *stripped {
                m.shades.clear();
                for w in &mut m.windows {
                    w.geometry.setback = 0.0;
                }
            }
            if *halved {
                for d in &mut m.schedules.day {
                    for v in &mut d.values {
                        *v *= 0.5;
                    }
                }
            }
            m
        }
        Spec::Plan { plan, without_shades } => {
            let mut m = model::build(plan);
            if *without_shades {
                m.shades.clear();
                for w in &mut m.windows {
                    w.geometry.setback = 0.0;
                }
            }
            m
        }
    }
}

/// indicators as a JSON value with the per-orientation detail as a sorted map (its order may vary, its content may not)
fn indicators_digest(m: &Model) -> String {
    let ind = m.energy_indicators();
    let mut v = serde_json::to_value(&ind).unwrap_or(Value::Null);
    if let Some(d) = v.pointer_mut("/q_soljul_data/detail") {
        if let Value::Object(o) = d {
            let sorted: BTreeMap<String, Value> = o.iter().map(|(k, v)| (k.clone(), v.clone())).collect();
            *d = json!(sorted);
        }
    }
    format!("{:016x}", fnv64(serde_json::to_string(&v).unwrap_or_default().as_bytes()))
}

// ------------------------------------------------------------------ worker side

pub fn worker(sub: &str, v: Value) -> Value {
    match sub {
        "C05.convert_seq" => {
            let ps: Vec<Proj> = serde_json::from_value(v).expect("decodes");
            json!(ps.iter().map(|p| match json_of(p) { Ok(j) => format!("{:016x}:{}", fnv64(j.as_bytes()), j.len()), Err(e) => format!("err:{}", e.lines().next().unwrap_or("")) }).collect::<Vec<_>>())
        }
        "C05.convert_threads" => {
            let ps: Vec<Proj> = serde_json::from_value(v).expect("decodes");
            let n = ps.len();
            let barrier = Arc::new(Barrier::new(n));
            let hs: Vec<_> = ps
                .into_iter()
                .map(|p| {
                    let b = barrier.clone();
                    std::thread::spawn(move || {
                        b.wait();
                        match json_of(&p) {
                            Ok(j) => format!("{:016x}:{}", fnv64(j.as_bytes()), j.len()),
                            Err(e) => format!("err:{}", e.lines().next().unwrap_or("")),
                        }
                    })
                })
                .collect();
            json!(hs.into_iter().map(|h| h.join().unwrap_or_else(|_| "panic".into())).collect::<Vec<_>>())
        }
        "C05.ind_seq" => {
            let ss: Vec<Spec> = serde_json::from_value(v).expect("decodes");
            // from the second model on, other public entry points are used first (U-values of single walls, the
            // properties table), as an editor does while the model is being changed; the first one (and so every
            // baseline, which is a history of one) goes straight to the indicators
            json!(ss
                .iter()
                .enumerate()
                .map(|(i, s)| {
                    let m = spec_model(s);
                    if i > 0 {
                        for w in &m.walls {
                            let _ = w.u_value(&m);
                        }
                        let _ = bemodel::energy::EnergyProps::from(&m);
                    }
                    indicators_digest(&m)
                })
                .collect::<Vec<_>>())
        }
        "C05.ind_threads" => {
            let ss: Vec<Spec> = serde_json::from_value(v).expect("decodes");
            let n = ss.len();
            let barrier = Arc::new(Barrier::new(n));
            let hs: Vec<_> = ss
                .into_iter()
                .map(|s| {
                    let b = barrier.clone();
                    std::thread::spawn(move || {
                        let m = spec_model(&s);
                        b.wait();
                        indicators_digest(&m)
                    })
                })
                .collect();
            json!(hs.into_iter().map(|h| h.join().unwrap_or_else(|_| "panic".into())).collect::<Vec<_>>())
        }
        _ => Value::Null,
    }
}

fn call_fresh<C: Serialize>(sub: &str, c: &C) -> Result<Vec<String>, Verdict> {
    worker_reset(sub);
    let out = worker_call(sub, c, Duration::from_secs(300));
    worker_reset(sub);
    match out {
        WorkerOut::Ok(v) => Ok(serde_json::from_value(v).unwrap_or_default()),
        WorkerOut::Panic(p) => Err(Verdict::from_panic("C05:worker", &p)),
        WorkerOut::Hang => Err(Verdict::fail("C05:hang", "no answer within 300 s")),
        WorkerOut::Died(s) => Err(Verdict::fail("C05:process-died", format!("worker died: {}", s))),
    }
}

// ------------------------------------------------------------------ conversion determinism

#[derive(Clone, Debug, Serialize, Deserialize)]
pub struct ConvSeq {
    /// projects, in the order they are converted in ONE fresh process
    pub order: Vec<Proj>,
    pub threads: bool,
}

fn baseline_of(p: &Proj) -> Result<String, Verdict> {
    // one project alone in a fresh process
    Ok(call_fresh("C05.convert_seq", &vec![p.clone()])?.into_iter().next().unwrap_or_default())
}

fn check_conv_seq(h: &CaseH, c: &ConvSeq) -> Verdict {
    let got = match call_fresh(if c.threads { "C05.convert_threads" } else { "C05.convert_seq" }, &c.order) {
        Ok(g) => g,
        Err(v) => return v,
    };
    vensure!(got.len() == c.order.len(), "C05:protocol", "worker returned {} digests for {} projects", got.len(), c.order.len());
    let label = |p: &Proj| match p {
        Proj::File(f) => f.trim_start_matches("/repo/hulc_tests/tests/").to_string(),
        Proj::Text(t) => format!("generated project ({} bytes)", t.len()),
        Proj::DirExtra(d) => format!("{} with result files", d.trim_start_matches("/repo/hulc_tests/tests/")),
        Proj::FileNoBuildParams(f) => format!("{} without its BUILD-PARAMETERS block", f.trim_start_matches("/repo/hulc_tests/tests/")),
    };
    for (i, p) in c.order.iter().enumerate() {
        let base = match baseline_of(p) {
            Ok(b) => b,
            Err(v) => return v,
        };
        if base.starts_with("err:") {
            h.class("not-convertible");
            continue;
        }
        h.evals(1);
        vensure!(
            got[i] == base,
            format!("C05:conversion-differs:{}", if c.threads { "concurrent" } else { "after-other-conversions" }),
            "{} converted {} gives JSON {} but alone in a fresh process it gives {} ({} projects in this process: {:?})",
            label(p),
            if c.threads { format!("on one of {} simultaneous threads", c.order.len()) } else { format!("as #{} in one process", i + 1) },
            got[i],
            base,
            c.order.len(),
            c.order.iter().map(label).collect::<Vec<_>>()
        );
    }
    let distinct: std::collections::HashSet<String> = c.order.iter().map(label).collect();
    if distinct.len() >= 2 || c.order.len() >= 3 {
        h.nontrivial(fp(&(c.order.iter().map(label).collect::<Vec<_>>(), c.threads)));
    }
    h.class(if c.threads { "threads" } else { "sequence" });
    h.sample(|| json!({"order": c.order.iter().map(label).collect::<Vec<_>>(), "threads": c.threads}));
    Verdict::Pass
}

// ------------------------------------------------------------------ id locality

const EXTRA_BLOCKS: [&str; 8] = [
    "\"ZZ material nuevo\" = MATERIAL\n    TYPE = PROPERTIES\n    CONDUCTIVITY = 0.5\n    DENSITY = 1000\n    SPECIFIC-HEAT = 1000\n    ..\n",
    "\"ZZ capas nuevas\" = LAYERS\n    MATERIAL = ( \"ZZ material nuevo b\")\n    THICKNESS = ( 0.1)\n    ..\n\"ZZ material nuevo b\" = MATERIAL\n    TYPE = RESISTANCE\n    RESISTANCE = 0.2\n    ..\n",
    "\"ZZ vidrio nuevo\" = GLASS-TYPE\n    TYPE = SHADING-COEF\n    SHADING-COEF = 0.7\n    GLASS-CONDUCTANCE = 2.5\n    ..\n",
    "\"ZZ marco nuevo\" = NAME-FRAME\n    GROUP = \"x\"\n    FRAME-WIDTH = 0.1\n    FRAME-CONDUCT = 2.2\n    FRAME-ABS = 0.7\n    ..\n",
    "\"ZZ_dia_nuevo\" = DAY-SCHEDULE-PD\n    TYPE = \"FRACTION\"\n    VALUES = ( 0.5)\n    ..\n",
    "\"ZZ_sombra_nueva\" = BUILDING-SHADE\n    TRAN = 0\n    REFL = 0.7\n    X = 50.0\n    Y = 50.0\n    Z = 0.0\n    HEIGHT = 3.0\n    WIDTH = 4.0\n    TILT = 90.0\n    AZIMUTH = 0.0\n    ..\n",
    "\"ZZ_PT_NUEVO\" = THERMAL-BRIDGE\n    LONG-TOTAL = 3.0\n    DEFINICION = 1\n    TTL = 0.1\n    FRSI = 0.5\n    TYPE = PILLAR\n    ..\n",
    "\"ZZ_semana_nueva\" = WEEK-SCHEDULE-PD\n    TYPE = \"FRACTION\"\n    DAY-SCHEDULES = ( \"ZZ_dia_nuevo2\")\n    ..\n\"ZZ_dia_nuevo2\" = DAY-SCHEDULE-PD\n    TYPE = \"FRACTION\"\n    VALUES = ( 0.25)\n    ..\n",
];

#[derive(Clone, Debug, Serialize, Deserialize)]
pub struct LocalityCase {
    pub proj: Proj,
    pub extra: u8,
}

fn name_id_maps(m: &Model) -> BTreeMap<String, String> {
    let mut out = BTreeMap::new();
    let mut put = |k: &str, name: &str, id: bemodel::Uuid| {
        out.insert(format!("{}/{}", k, name), id.to_string());
    };
    for x in &m.spaces {
        put("space", &x.name, x.id);
    }
    for x in &m.walls {
        put("wall", &x.name, x.id);
    }
    for x in &m.windows {
        put("window", &x.name, x.id);
    }
    for x in &m.shades {
        put("shade", &x.name, x.id);
    }
    for x in &m.thermal_bridges {
        put("tb", &x.name, x.id);
    }
    for x in &m.cons.wallcons {
        put("wallcons", &x.name, x.id);
    }
    for x in &m.cons.wincons {
        put("wincons", &x.name, x.id);
    }
    for x in &m.cons.materials {
        put("material", &x.name, x.id);
    }
    for x in &m.cons.glasses {
        put("glass", &x.name, x.id);
    }
    for x in &m.cons.frames {
        put("frame", &x.name, x.id);
    }
    for x in &m.loads {
        put("loads", &x.name, x.id);
    }
    for x in &m.thermostats {
        put("thermostat", &x.name, x.id);
    }
    for x in &m.schedules.year {
        put("year", &x.name, x.id);
    }
    for x in &m.schedules.week {
        put("week", &x.name, x.id);
    }
    for x in &m.schedules.day {
        put("day", &x.name, x.id);
    }
    out
}

fn insert_block(text: &str, block: &str) -> Option<String> {
    // a top-level position: right before the first FLOOR block (definitions precede the geometry in HULC files)
    let pos = text.find("= FLOOR")?;
    let line_start = text[..pos].rfind('\n').map(|p| p + 1).unwrap_or(0);
    let eol = if text.contains("\r\n") { "\r\n" } else { "\n" };
    Some(format!("{}{}{}", &text[..line_start], block.replace('\n', eol), &text[line_start..]))
}

fn check_locality(h: &CaseH, c: &LocalityCase) -> Verdict {
    let text = project_text(&c.proj);
    let m1 = match catch(|| convert(&Proj::Text(text.clone()))) {
        Ok(Ok(m)) => m,
        Ok(Err(_)) => {
            h.class("not-convertible");
            return Verdict::Pass;
        }
        Err(p) => return Verdict::from_panic("C05:convert", &p),
    };
    // #8: a further CONSTRUCTION (own name, own absorptance) over a LAYERS definition the project already uses
    let dynamic;
    let nblocks = EXTRA_BLOCKS.len() + 2;
    let block: &str = if c.extra as usize % nblocks == EXTRA_BLOCKS.len() + 1 {
        // #9: a daily schedule that takes the name of an existing weekly schedule (names are unique per kind only)
        let week_name = text.lines().map(str::trim).filter(|l| l.starts_with('"') && l.ends_with("= WEEK-SCHEDULE-PD")).filter_map(|l| l[1..].find('"').map(|q| l[1..1 + q].to_string())).next();
        match week_name {
            Some(n) => {
                dynamic = format!("\"{}\" = DAY-SCHEDULE-PD\n    TYPE = \"FRACTION\"\n    VALUES = ( 0.5)\n    ..\n", n);
                &dynamic
            }
            None => return Verdict::Pass,
        }
    } else if c.extra as usize % nblocks == EXTRA_BLOCKS.len() {
        let layers_name = text.lines().map(str::trim).filter(|l| l.starts_with("LAYERS") && l.contains('=')).filter_map(|l| {
            let a = l.find('"')?;
            let b = l[a + 1..].find('"')? + a + 1;
            Some(l[a + 1..b].to_string())
        }).find(|n| n != "Ninguno");
        match layers_name {
            Some(n) => {
                dynamic = format!("\"{}0.95zz\" = CONSTRUCTION\n    TYPE = LAYERS\n    LAYERS = \"{}\"\n    ABSORPTANCE = 0.950000\n    ..\n", n, n);
                &dynamic
            }
            None => return Verdict::Pass,
        }
    } else {
        EXTRA_BLOCKS[c.extra as usize % nblocks]
    };
    let t2 = match insert_block(&text, block) {
        Some(t) => t,
        None => return Verdict::Pass,
    };
    let m2 = match catch(|| convert(&Proj::Text(t2))) {
        Ok(Ok(m)) => m,
        Ok(Err(e)) => vfail!("C05:locality:not-converted", "project is rejected after adding an unrelated definition: {}", e.lines().next().unwrap_or("")),
        Err(p) => return Verdict::from_panic("C05:convert", &p),
    };
    let (a, b) = (name_id_maps(&m1), name_id_maps(&m2));
    for (k, id) in &a {
        match b.get(k) {
            Some(id2) => vensure!(id == id2, "C05:locality:id-changed", "adding the unrelated definition #{} ({}) changes the id of {} from {} to {}", c.extra % 10, block.lines().next().unwrap_or(""), k, id, id2),
            None => vfail!("C05:locality:element-lost", "adding an unrelated definition makes {} disappear", k),
        }
    }
    h.class(&format!("extra/{}", c.extra % 10));
    if a.len() > 20 {
        h.nontrivial(fp(&(a.len(), c.extra, fnv64(text.as_bytes()))));
    }
    h.sample(|| json!({"elements": a.len(), "extra_block": block.lines().next().unwrap_or("")}));
    Verdict::Pass
}

// ------------------------------------------------------------------ repeat in process

fn check_repeat(h: &CaseH, p: &Proj) -> Verdict {
    let r: Vec<Result<String, String>> = (0..3).map(|_| catch(|| json_of(p)).unwrap_or_else(|pn| Err(format!("panic: {}", pn.msg)))).collect();
    if r[0].is_err() {
        h.class("not-convertible");
        return Verdict::Pass;
    }
    vensure!(r[0] == r[1] && r[1] == r[2], "C05:repeat-differs", "three conversions of the same project in one process give different JSON (lengths {:?})", r.iter().map(|x| x.as_ref().map(|s| s.len()).unwrap_or(0)).collect::<Vec<_>>());
    h.nontrivial(fp(&fnv64(r[0].as_ref().unwrap().as_bytes())));
    if matches!(p, Proj::DirExtra(_)) {
        h.class("with-result-files");
        if r[0].as_ref().map_or(false, |j| j.contains("\"overrides\"")) {
            h.class("with-result-files/overrides-present");
        }
    }
    Verdict::Pass
}

// ------------------------------------------------------------------ shipped reference pairs

const PAIRS: [(&str, &str); 6] = [
    ("cubo/cubo.ctehexml", "cubo.json"),
    ("e4h_medianeras/e4h_medianeras.ctehexml", "e4h_medianeras.json"),
    ("casoA/casoa.ctehexml", "caso_a.json"),
    ("ejemploviv_unif/ejemploviv_unif.ctehexml", "ejemploviv_unif.json"),
    ("ejemplo_gt_aerotermia/ejemplo_gt_aerotermia.ctehexml", "ejemplo_gt_aerotermia.json"),
    ("cubo_gt_caldera_radiadores/cubo_gt_caldera_radiadores.ctehexml", "cubo_gt_caldera_radiadores.json"),
];

fn check_pair(h: &CaseH, pair: &(String, String)) -> Verdict {
    let proj = format!("/repo/hulc_tests/tests/{}", pair.0);
    let reff = format!("/repo/bemodel/tests/data/{}", pair.1);
    let (ptxt, rtxt) = (std::fs::read_to_string(&proj), std::fs::read_to_string(&reff));
    let (ptxt, rtxt) = match (ptxt, rtxt) {
        (Ok(a), Ok(b)) => (a, b),
        _ => {
            h.class("pair-missing");
            return Verdict::Pass;
        }
    };
    let now = match catch(|| json_of(&Proj::Text(ptxt))) {
        Ok(Ok(j)) => j,
        Ok(Err(e)) => vfail!("C05:reference:not-converted", "{} does not convert: {}", pair.0, e),
        Err(p) => return Verdict::from_panic("C05:convert", &p),
    };
    // the reference through today's serialiser (number spelling such as 1e30 / 1e+30 belongs to serde_json)
    let reference = match Model::from_json(&rtxt).and_then(|m| m.as_json()) {
        Ok(j) => j,
        Err(e) => vfail!("C05:reference:does-not-load", "{} does not load: {}", pair.1, e),
    };
    if now != reference {
        let (a, b): (Value, Value) = (serde_json::from_str(&now).unwrap_or(Value::Null), serde_json::from_str(&reference).unwrap_or(Value::Null));
        let d = crate::props::model_props::value_diff(&a, &b, "$").unwrap_or_else(|| "texts differ but values are equal".into());
        vfail!("C05:reference:differs", "{} no longer converts to the shipped reference {}: first difference at {}", pair.0, pair.1, d);
    }
    h.nontrivial(fp(pair));
    h.sample(|| json!({"project": pair.0, "reference": pair.1, "bytes": now.len()}));
    Verdict::Pass
}

// ------------------------------------------------------------------ indicator histories

#[derive(Clone, Debug, Serialize, Deserialize)]
pub struct IndSeq {
    pub specs: Vec<Spec>,
    pub threads: bool,
}

fn check_ind_seq(h: &CaseH, c: &IndSeq) -> Verdict {
    let got = match call_fresh(if c.threads { "C05.ind_threads" } else { "C05.ind_seq" }, &c.specs) {
        Ok(g) => g,
        Err(v) => return v,
    };
    vensure!(got.len() == c.specs.len(), "C05:protocol", "worker returned {} digests for {} models", got.len(), c.specs.len());
    let label = |s: &Spec| match s {
        Spec::Shipped { name, stripped, halved } => format!("{}{}{}", name, if *stripped { " (shades and setbacks removed)" } else { "" }, if *halved { " (daily schedule values halved)" } else { "" }),
        Spec::Plan { plan, without_shades } => format!("generated plan salt={} zone={}{}", plan.salt, plan.meta.zone, if *without_shades { " (shades and setbacks removed)" } else { "" }),
    };
    let mut zones = std::collections::HashSet::new();
    for (i, s) in c.specs.iter().enumerate() {
        let base = match call_fresh("C05.ind_seq", &vec![s.clone()]) {
            Ok(b) => b.into_iter().next().unwrap_or_default(),
            Err(v) => return v,
        };
        h.evals(1);
        vensure!(
            got[i] == base,
            format!("C05:indicators-differ:{}", if c.threads { "concurrent" } else { "after-other-computations" }),
            "indicators of {} computed {} differ from those computed alone in a fresh process (history: {:?})",
            label(s),
            if c.threads { "concurrently".to_string() } else { format!("as #{} in one process", i + 1) },
            c.specs.iter().map(label).collect::<Vec<_>>()
        );
        zones.insert(format!("{}", spec_model(s).meta.climate));
    }
    if zones.len() >= 2 {
        h.nontrivial(fp(&(c.specs.iter().map(label).collect::<Vec<_>>(), c.threads)));
    }
    let same_ids_variant = c.specs.iter().enumerate().any(|(i, a)| {
        c.specs[..i].iter().any(|b| match (a, b) {
            (Spec::Shipped { name: n1, stripped: s1, halved: h1 }, Spec::Shipped { name: n2, stripped: s2, halved: h2 }) => n1 == n2 && (s1 != s2 || h1 != h2),
            (Spec::Plan { plan: p1, without_shades: s1 }, Spec::Plan { plan: p2, without_shades: s2 }) => p1.salt == p2.salt && s1 != s2,
            _ => false,
        })
    });
    if same_ids_variant {
        h.class("edited-variant-with-same-ids-in-history");
    }
    h.class(if c.threads { "threads" } else { "sequence" });
    h.sample(|| json!({"history": c.specs.iter().map(label).collect::<Vec<_>>(), "threads": c.threads}));
    Verdict::Pass
}

fn shipped_model_names() -> Vec<String> {
    crate::util::files_with_ext(std::path::Path::new("/repo/bemodel/tests/data"), &["json"]).into_iter().map(|p| p.file_name().unwrap().to_string_lossy().to_string()).collect()
}

fn ind_seq() -> BoxedStrategy<IndSeq> {
    let names = shipped_model_names();
    let n = names.len();
    let spec = prop_oneof![
        3 => (0..n, any::<bool>(), prop_oneof![3 => Just(false), 1 => Just(true)]).prop_map(move |(i, stripped, halved)| Spec::Shipped { name: names[i].clone(), stripped, halved }),
        2 => (model::plan(Params { open: false, max_spaces: 2, uses: false, ..Params::default() }), any::<bool>()).prop_map(|(p, w)| Spec::Plan { plan: Box::new(p), without_shades: w }),
    ];
    (proptest::collection::vec(spec, 2..=6), any::<bool>(), any::<bool>())
        .prop_map(|(mut specs, threads, dup)| {
            // an edited variant of the first model (same ids) later in the history: what an editor session does
            if dup {
                let v = match &specs[0] {
                    Spec::Shipped { name, stripped, halved } => {
                        if name.len() % 2 == 0 {
                            Spec::Shipped { name: name.clone(), stripped: !stripped, halved: *halved }
                        } else {
                            Spec::Shipped { name: name.clone(), stripped: *stripped, halved: !halved }
                        }
                    }
                    Spec::Plan { plan, without_shades } => Spec::Plan { plan: plan.clone(), without_shades: !without_shades },
                };
                specs.push(v);
            }
            IndSeq { specs, threads }
        })
        .boxed()
}

pub fn run(args: &Args) -> ! {
    let ctx = Ctx::new("C05", "exploration", args);
    ctx.rule("conversion: shipped .ctehexml projects (plain, exported with their result files as --use-extra does, and with their BUILD-PARAMETERS block left out) and generated buildings: 3 repeats in one process; histories of 2-6 conversions in ONE fresh process in a generated order and the same on simultaneous threads (barrier-released), each compared byte-wise (digest + length) with the project converted alone in a fresh process; id locality: each project with one unrelated definition added (material, layers, glass, frame, day/week schedule, shade, bridge, a further construction with its own name and absorptance over a layers definition the project already uses, or a daily schedule named like an existing weekly one): name -> id maps before are a sub-map of those after; the 6 shipped (project, reference model) pairs of the Makefile, reference normalised through the current serialiser. indicators: histories of 2-7 computations (shipped models, their variants with shades/setbacks removed or every daily schedule value halved but identical ids, generated models over all zones) sequentially in one fresh process and on simultaneous threads, from the second computation on preceded by calls of the other public entry points (Wall::u_value of every wall, EnergyProps::from) on the same model; each result compared with the model computed alone in a fresh process (per-orientation detail compared as a map). Non-trivial: history with >= 2 different projects / >= 2 climate zones.");
    ctx.assume("a fresh process = a new worker process of the harness binary; thread interleavings are sampled (start order only)");
    ctx.replay_regressions(replay_one);
    let mut real: Vec<Proj> = real_projects().into_iter().map(Proj::File).collect();
    let plain = real.clone();
    // the same projects exported with their result files (overrides filled from KyGananciasSolares.txt / NewBDL_O.tbl)
    for f in real_projects() {
        if let Some(d) = std::path::Path::new(&f).parent() {
            if !crate::util::files_named(d, "KyGananciasSolares.txt").is_empty() {
                real.push(Proj::DirExtra(d.to_string_lossy().to_string()));
            }
        }
    }
    // and without their BUILD-PARAMETERS block: what such a project converts to must not depend on the project before it
    for f in real_projects() {
        real.push(Proj::FileNoBuildParams(f));
    }
    ctx.run_enum("repeat_real", &real, true, check_repeat);
    ctx.run_prop("repeat_generated", ctx.tier().pick(20, 500), || gb::bld().prop_map(|b| Proj::Text(gb::print_ctehexml(&b, &[]))), check_repeat);
    let pairs: Vec<(String, String)> = PAIRS.iter().map(|(a, b)| (a.to_string(), b.to_string())).collect();
    ctx.run_enum("reference_pairs", &pairs, true, check_pair);
    // conversion histories over the real projects (+ a few generated ones)
    let mut seqs = vec![];
    let nseq = ctx.tier().pick(60u64, 1000u64);
    for k in 0..nseq {
        let len = 2 + (mix(ctx.seed(), "len", k) % 4) as usize;
        let order: Vec<Proj> = (0..len).map(|j| real[(mix(ctx.seed(), "conv", k * 16 + j as u64) % real.len() as u64) as usize].clone()).collect();
        seqs.push(ConvSeq { order, threads: k % 3 == 2 });
    }
    // all threads the same project
    seqs.push(ConvSeq { order: vec![real[(ctx.seed() as usize) % real.len()].clone(); 8], threads: true });
    ctx.run_enum("conversion_histories", &seqs, false, check_conv_seq);
    let mut loc = vec![];
    for (i, p) in plain.iter().enumerate() {
        let _ = i;
        for e in 0..10u8 {
            loc.push(LocalityCase { proj: p.clone(), extra: e });
        }
    }
    ctx.run_enum("id_locality_real", &loc, false, check_locality);
    ctx.run_prop("id_locality_generated", ctx.tier().pick(400, 10_000), || (gb::bld(), any::<u8>()).prop_map(|(b, extra)| LocalityCase { proj: Proj::Text(gb::print_ctehexml(&b, &[])), extra }), check_locality);
    ctx.run_prop("indicator_histories", ctx.tier().pick(300, 10_000), ind_seq, check_ind_seq);
    for c in ["conversion_histories/threads", "conversion_histories/sequence", "indicator_histories/threads", "indicator_histories/sequence", "indicator_histories/edited-variant-with-same-ids-in-history", "id_locality_real/extra/8", "id_locality_generated/extra/8", "repeat_real/with-result-files/overrides-present"] {
        ctx.require_class(c);
    }
    ctx.finish()
}

pub fn replay_one(ctx: &Ctx, doc: &ReplayDoc) {
    use crate::engine::replay_case;
    match doc.sub.as_str() {
        "repeat_real" | "repeat_generated" => replay_case::<Proj>(ctx, &doc.sub, &doc.case, check_repeat),
        "reference_pairs" => replay_case::<(String, String)>(ctx, &doc.sub, &doc.case, check_pair),
        "conversion_histories" => replay_case::<ConvSeq>(ctx, &doc.sub, &doc.case, check_conv_seq),
        "id_locality_real" | "id_locality_generated" => replay_case::<LocalityCase>(ctx, &doc.sub, &doc.case, check_locality),
        "indicator_histories" => replay_case::<IndSeq>(ctx, &doc.sub, &doc.case, check_ind_seq),
        s => ctx.infra_error(format!("unknown sub {}", s)),
    }
}

#[allow(dead_code)]
fn _unused(_: Bld) {}
