//! C03 — conversion preserves the building's geometry and orientation conventions.
//! Expected global corner points are computed from the source definition with DOE-2/BDL semantics
//! (child -> rotate by its own azimuth, clockwise from +Y -> translate by X, Y, Z -> next level;
//! building deviation last), in f64.

use proptest::prelude::*;
use serde::{Deserialize, Serialize};
use serde_json::json;

use bemodel::{Model, Wall};
use hulc::bdl::{BdlBlockType, Data};
use hulc::ctehexml::CtehexmlData;

use crate::engine::{catch, fp, Args, CaseH, Ctx, ReplayDoc, Verdict};
use crate::gen::building::{self as gb, Bld};
use crate::gen::geom::dec2;
use crate::oracle::ray as ora;
use crate::props::envelope_props::indicators;
use crate::{vensure, vfail};

type V3 = [f64; 3];

/// clockwise rotation by `deg` about z (BDL angles turn clockwise seen from above)
fn rot_cw(p: V3, deg: f64) -> V3 {
    ora::rot_z(p, -deg)
}

pub struct SpaceFrame {
    pub x: f64,
    pub y: f64,
    pub z: f64,
    pub azimuth: f64,
    pub deviation: f64,
}

impl SpaceFrame {
    /// point in space coordinates -> global coordinates
    pub fn global(&self, p: V3) -> V3 {
        let q = rot_cw(p, self.azimuth);
        rot_cw([q[0] + self.x, q[1] + self.y, q[2] + self.z], self.deviation)
    }
    pub fn global_dir(&self, d: V3) -> V3 {
        rot_cw(rot_cw(d, self.azimuth), self.deviation)
    }
}

fn corners_of(w: &Wall) -> Option<Vec<V3>> {
    let m = w.geometry.to_global_coords_matrix()?;
    Some(
        w.geometry
            .polygon
            .iter()
            .map(|p| {
                let g = m * nalgebra::point![p.x, p.y, 0.0];
                [g.x as f64, g.y as f64, g.z as f64]
            })
            .collect(),
    )
}

fn model_normal(w: &Wall) -> V3 {
    let g = &w.geometry;
    let n = ora::to_global(g.tilt as f64, g.azimuth as f64, [0.0; 3], [0.0, 0.0, 1.0]);
    let poly: Vec<crate::gen::geom::P2> = g.polygon.iter().map(|p| crate::gen::geom::P2 { x: p.x, y: p.y }).collect();
    if ora::shoelace(&poly) < 0.0 {
        ora::scale(n, -1.0)
    } else {
        n
    }
}

fn same_set(a: &[V3], b: &[V3], tol: f64) -> Option<(V3, f64)> {
    // returns the worst unmatched point of `a` and its distance to the closest point of `b`
    let mut worst: Option<(V3, f64)> = None;
    for p in a {
        let d = b.iter().map(|q| ora::norm(ora::sub(*p, *q))).fold(f64::INFINITY, f64::min);
        if d > tol && worst.map_or(true, |w| d > w.1) {
            worst = Some((*p, d));
        }
    }
    worst
}

fn poly_area(p: &[(f64, f64)]) -> f64 {
    let n = p.len();
    (0..n).map(|i| p[i].0 * p[(i + 1) % n].1 - p[i].1 * p[(i + 1) % n].0).sum::<f64>().abs() / 2.0
}

/// the generic geometric check of one model against source data expressed as `Data` (used for both
/// generated buildings and real projects)
pub fn check_geometry(h: &CaseH, d: &Data, m: &Model, what: &str) -> Verdict {
    let dev = d.meta.get(&BdlBlockType::BuildParameters).and_then(|b| b.attrs.get_f32("AZIMUTH").ok()).unwrap_or(0.0) as f64;
    let tol = 0.01;
    for bw in &d.walls {
        let w = match m.walls.iter().find(|x| x.name == bw.name) {
            Some(w) => w,
            None => vfail!("C03:wall-missing", "{}: wall {:?} missing from the model", what, bw.name),
        };
        let s = match d.spaces.iter().find(|s| s.name == bw.space) {
            Some(s) => s,
            None => continue,
        };
        let fr = SpaceFrame {
            x: s.x as f64,
            y: s.y as f64,
            z: s.z as f64,
            azimuth: s.angle_with_building_north as f64,
            deviation: dev,
        };
        let rotated = s.angle_with_building_north != 0.0;
        let offset = s.x != 0.0 || s.y != 0.0;
        let class = match (rotated, offset) {
            (true, true) => "space/rotated+offset",
            (true, false) => "space/rotated",
            (false, true) => "space/offset",
            _ => "space/plain",
        };
        let outline: Vec<(f64, f64)> = s.polygon.0.iter().map(|p| (p.x as f64, p.y as f64)).collect();
        if outline.len() < 3 {
            continue;
        }
        let ccw = {
            let n = outline.len();
            (0..n).map(|i| outline[i].0 * outline[(i + 1) % n].1 - outline[i].1 * outline[(i + 1) % n].0).sum::<f64>() > 0.0
        };
        let got = match corners_of(w) {
            Some(c) => c,
            None => vfail!("C03:no-position", "{}: converted wall {:?} has no position", what, bw.name),
        };
        let hgt = s.height as f64;
        h.evals(1);
        match (bw.location.as_deref(), &bw.polygon) {
            (Some(loc), None) if loc.starts_with('V') => {
                let i: usize = match loc[1..].parse::<usize>() {
                    Ok(i) if i >= 1 && i <= outline.len() => i - 1,
                    _ => continue,
                };
                if bw.z != 0.0 || bw.x != 0.0 || bw.y != 0.0 {
                    // partial-height walls of legacy LIDER files (Z and HEIGHT attributes): the statement speaks of
                    // edge walls spanning the storey height only
                    h.class("edge-wall-with-own-offset(not asserted)");
                    continue;
                }
                let a = outline[i];
                let b = outline[(i + 1) % outline.len()];
                let exp = vec![fr.global([a.0, a.1, 0.0]), fr.global([b.0, b.1, 0.0]), fr.global([b.0, b.1, hgt]), fr.global([a.0, a.1, hgt])];
                h.class(&format!("edge-wall/{}", class));
                if let Some((p, dist)) = same_set(&exp, &got, tol) {
                    let sig = format!("C03:edge-wall-position:{}", class);
                    if !h.known(&sig) {
                        vfail!(sig, "{}: wall {:?} on edge V{} of space {:?} (space X/Y/AZIMUTH = {}/{}/{}, deviation {}): source corner {:?} is {:.3} m away from every converted corner {:?}", what, bw.name, i + 1, s.name, s.x, s.y, s.angle_with_building_north, dev, p, dist, got);
                    }
                    continue;
                }
                // outward normal: away from the space
                let (dx, dy) = (b.0 - a.0, b.1 - a.1);
                let out = if ccw { [dy, -dx, 0.0] } else { [-dy, dx, 0.0] };
                let en = ora::unit(fr.global_dir(out));
                let mn = model_normal(w);
                if ccw {
                    vensure!(ora::dot(en, mn) > 0.999, "C03:edge-wall-normal", "{}: wall {:?}: outward normal should be {:?} (away from the space), converted {:?}", what, bw.name, en, mn);
                } else {
                    h.class("clockwise-outline(normal not asserted)");
                }
                let ea = ((dx * dx + dy * dy).sqrt()) * hgt;
                vensure!((w.area() as f64 - ea).abs() <= 1e-3 * ea + 1e-3, "C03:area", "{}: wall {:?}: area {} but edge length x storey height = {:.4}", what, bw.name, w.area(), ea);
                // azimuth convention: S=0, E=+90 of the outward normal
                let az = en[0].atan2(-en[1]).to_degrees();
                let diff = ((w.geometry.azimuth as f64 - az + 540.0).rem_euclid(360.0) - 180.0).abs();
                // the statement bounds positions (1 cm), not angles: an azimuth error of 1 cm over the wall's length
                // is what it allows (the library's f32 acos loses 0.02 degrees near 0 and 180 degrees all by itself)
                let az_tol = (0.01 / (dx * dx + dy * dy).sqrt().max(0.1)).to_degrees().clamp(0.03, 1.0);
                if ccw {
                    vensure!(diff < az_tol, "C03:azimuth", "{}: wall {:?}: azimuth {} but the outward normal points to {:.3} (S=0, E=+90)", what, bw.name, w.geometry.azimuth, az);
                }
            }
            (Some("TOP"), None) | (Some("BOTTOM"), None) => {
                let top = bw.location.as_deref() == Some("TOP");
                let z = if top { hgt } else { 0.0 };
                let exp: Vec<V3> = outline.iter().map(|p| fr.global([p.0, p.1, z])).collect();
                h.class(&format!("{}/{}", if top { "top" } else { "bottom" }, class));
                if let Some((p, dist)) = same_set(&exp, &got, tol).or_else(|| same_set(&got, &exp, tol)) {
                    let sig = format!("C03:{}-outline:{}", if top { "top" } else { "bottom" }, class);
                    if !h.known(&sig) {
                        vfail!(sig, "{}: {} element {:?} of space {:?} (X/Y/AZIMUTH = {}/{}/{}, deviation {}): point {:?} is {:.3} m away from the other outline; expected {:?}, converted {:?}", what, if top { "TOP" } else { "BOTTOM" }, bw.name, s.name, s.x, s.y, s.angle_with_building_north, dev, p, dist, exp, got);
                    }
                    continue;
                }
                let mn = model_normal(w);
                vensure!(if top { mn[2] > 0.999 } else { mn[2] < -0.999 }, "C03:horizontal-normal", "{}: {:?}: normal {:?} should point {}", what, bw.name, mn, if top { "up" } else { "down" });
                let ea = poly_area(&outline);
                vensure!((w.area() as f64 - ea).abs() <= 1e-3 * ea + 1e-3, "C03:area", "{}: {:?}: area {} but the outline has {:.4}", what, bw.name, w.area(), ea);
            }
            (_, Some(poly)) => {
                // own polygon: area, normal and origin
                let pa: Vec<(f64, f64)> = poly.0.iter().map(|p| (p.x as f64, p.y as f64)).collect();
                let ea = poly_area(&pa);
                h.class(&format!("own-polygon/{}", class));
                vensure!((w.area() as f64 - ea).abs() <= 1e-3 * ea + 1e-3, "C03:area", "{}: {:?}: area {} but its polygon has {:.4}", what, bw.name, w.area(), ea);
                if bw.location.is_none() {
                    let exp_o = fr.global([bw.x as f64, bw.y as f64, bw.z as f64]);
                    let pos = w.geometry.position.map(|p| [p.x as f64, p.y as f64, p.z as f64]).unwrap_or([f64::NAN; 3]);
                    let dist = ora::norm(ora::sub(exp_o, pos));
                    if dist > tol {
                        let sig = format!("C03:own-polygon-origin:{}", class);
                        if !h.known(&sig) {
                            vfail!(sig, "{}: wall {:?} with its own polygon: origin should be {:?}, converted {:?}", what, bw.name, exp_o, pos);
                        }
                        continue;
                    }
                    let (t, a) = ((bw.tilt as f64).to_radians(), (bw.angle_with_space_north as f64).to_radians());
                    let en = fr.global_dir([t.sin() * a.sin(), t.sin() * a.cos(), t.cos()]);
                    let mn = model_normal(w);
                    vensure!(ora::dot(en, mn) > 0.999, "C03:own-polygon-normal", "{}: wall {:?} (azimuth {}, tilt {}): normal should be {:?}, converted {:?}", what, bw.name, bw.angle_with_space_north, bw.tilt, en, mn);
                }
            }
            _ => {}
        }
    }
    // windows keep size, offset and setback
    for bwin in &d.windows {
        let w = match m.windows.iter().find(|x| x.name == bwin.name) {
            Some(w) => w,
            None => vfail!("C03:window-missing", "{}: window {:?} missing", what, bwin.name),
        };
        let p = w.geometry.position.map(|p| (p.x, p.y));
        vensure!(p == Some((bwin.x, bwin.y)) && w.geometry.width == bwin.width && w.geometry.height == bwin.height && w.geometry.setback == bwin.setback, "C03:window-geometry", "{}: window {:?}: ({}, {}, {}, {}, setback {}) in the source, ({:?}, {}, {}, {}) converted", what, bwin.name, bwin.x, bwin.y, bwin.width, bwin.height, bwin.setback, p, w.geometry.width, w.geometry.height, w.geometry.setback);
        if bwin.setback != 0.0 {
            h.class("window-with-setback");
        }
    }
    // shades
    for sh in &d.shadings {
        let ms = match m.shades.iter().find(|x| x.name == sh.name) {
            Some(s) => s,
            None => {
                if sh.geometry.as_ref().map_or(false, |g| g.height.abs() < 1e-3) {
                    continue;
                }
                vfail!("C03:shade-missing", "{}: shade {:?} missing", what, sh.name)
            }
        };
        let mm = match ms.geometry.to_global_coords_matrix() {
            Some(x) => x,
            None => vfail!("C03:shade-no-position", "{}: shade {:?} without position", what, sh.name),
        };
        let got: Vec<V3> = ms.geometry.polygon.iter().map(|p| { let g = mm * nalgebra::point![p.x, p.y, 0.0]; [g.x as f64, g.y as f64, g.z as f64] }).collect();
        let exp: Vec<V3> = if let Some(g) = &sh.geometry {
            h.class("shade/rectangle");
            // lower-left corner seen from outside at (x, y, z); width to the right, height up the slope
            let (t, a) = ((g.tilt as f64).to_radians(), (g.azimuth as f64).to_radians());
            let nh = [a.sin(), a.cos()];
            let xl = [-nh[1], nh[0], 0.0];
            let yl = [-t.cos() * nh[0], -t.cos() * nh[1], t.sin()];
            let o = [g.x as f64, g.y as f64, g.z as f64];
            let (wd, ht) = (g.width as f64, g.height as f64);
            [(0.0, 0.0), (wd, 0.0), (wd, ht), (0.0, ht)]
                .iter()
                .map(|(u, v)| rot_cw([o[0] + u * xl[0] + v * yl[0], o[1] + u * xl[1] + v * yl[1], o[2] + u * xl[2] + v * yl[2]], dev))
                .collect()
        } else if let Some(v) = &sh.vertices {
            h.class("shade/vertices");
            v.iter().map(|p| rot_cw([p.x as f64, p.y as f64, p.z as f64], dev)).collect()
        } else {
            continue;
        };
        if let Some((p, dist)) = same_set(&exp, &got, tol) {
            let kind = if sh.geometry.is_some() { "rectangle" } else { "vertices" };
            let sig = format!("C03:shade-corners:{}", kind);
            if !h.known(&sig) {
                vfail!(sig, "{}: shade {:?} ({}; deviation {}): source corner {:?} is {:.3} m away from every converted corner; expected {:?}, converted {:?}", what, sh.name, kind, dev, p, dist, exp, got);
            }
        }
    }
    Verdict::Pass
}

pub fn convert_bdl_text(text: &str) -> Result<(Data, Model), String> {
    let d = Data::new(text).map_err(|e| format!("parse: {}", e))?;
    let mut c = CtehexmlData::default();
    c.bdldata = d.clone();
    let m = Model::try_from(&c).map_err(|e| format!("convert: {}", e))?;
    Ok((d, m))
}

fn check_bld(h: &CaseH, b: &Bld) -> Verdict {
    let text = gb::print_bdl(b);
    let (d, m) = match catch(|| convert_bdl_text(&text)) {
        Ok(Ok(x)) => x,
        Ok(Err(e)) => vfail!("C03:generated-not-converted", "a well-formed generated building is rejected: {}", e.lines().next().unwrap_or("")),
        Err(p) => return Verdict::from_panic("C03:convert", &p),
    };
    let v = check_geometry(h, &d, &m, "generated building");
    if v.is_fail() {
        return v;
    }
    // storey height, not the SPACE's own HEIGHT attribute, is the height of the space
    for fl in &b.floors {
        for s in &fl.spaces {
            if let Some(ms) = m.spaces.iter().find(|x| x.name == s.name) {
                vensure!((ms.height - fl.height).abs() < 0.006, "C03:space-height", "space {:?}: height {} but its storey is {} high (HEIGHT attribute written: {:?})", s.name, ms.height, fl.height, s.height_attr);
                vensure!((ms.z - (fl.z + s.z)).abs() < 1e-4, "C03:space-z", "space {:?}: z {} but its storey is at {} and its own Z is {}", s.name, ms.z, fl.z, s.z);
            }
            if s.height_attr.map_or(false, |v| v != 0.0 && (v - fl.height).abs() > 0.05) {
                h.class("space-height-attribute-differs-from-storey");
            }
        }
    }
    // every window belongs to the element it was written under (from the building as generated, not from the parsed
    // document): walls, roofs (skylights) and ceilings alike
    for (_, s) in b.all_spaces() {
        for bw in &s.walls {
            for win in &bw.windows {
                let (mw, mwin) = match (m.walls.iter().find(|x| x.name == bw.name), m.windows.iter().find(|x| x.name == win.name)) {
                    (Some(a), Some(b)) => (a, b),
                    _ => continue,
                };
                h.class(if matches!(bw.kind, gb::WallKind::Roof) { "window-parent-checked/roof" } else { "window-parent-checked/other" });
                vensure!(mwin.wall == mw.id, "C03:window-parent", "window {:?} was written under {:?} but belongs to {:?} in the model", win.name, bw.name, m.walls.iter().find(|x| x.id == mwin.wall).map(|x| x.name.clone()));
            }
        }
    }
    // shades against the building as generated (check_geometry above takes the parsed document as its source):
    // the area of every shade equals the area of the source polygon, corner order included
    for sh in &b.shades {
        let (name, area) = match sh {
            gb::ShadeB::Rect { name, width, height, .. } => (name, (*width as f64) * (*height as f64)),
            gb::ShadeB::Verts { name, v } => {
                let mut acc = [0.0f64; 3];
                for i in 0..v.len() {
                    let (p, q) = (v[i], v[(i + 1) % v.len()]);
                    let (p, q) = ([p.0 as f64, p.1 as f64, p.2 as f64], [q.0 as f64, q.1 as f64, q.2 as f64]);
                    let c = ora::cross(p, q);
                    acc = [acc[0] + c[0], acc[1] + c[1], acc[2] + c[2]];
                }
                (name, 0.5 * ora::norm(acc))
            }
        };
        if let Some(ms) = m.shades.iter().find(|x| &x.name == name) {
            let got = ora::shoelace(&ms.geometry.polygon.iter().map(|p| crate::gen::geom::P2 { x: p.x, y: p.y }).collect::<Vec<_>>()).abs();
            h.class(if matches!(sh, gb::ShadeB::Verts { v, .. } if v.len() >= 10) { "shade/area-checked/10+corners" } else { "shade/area-checked" });
            vensure!((got - area).abs() <= 2e-3 * area + 0.02, "C03:shade-area", "shade {:?}: area {:.4} but the source polygon has {:.4} (corners taken in another order?)", name, got, area);
        }
    }
    let rotated_offset = b.all_spaces().iter().any(|(_, s)| s.azimuth != 0.0 && (s.x != 0.0 || s.y != 0.0));
    let offset = b.all_spaces().iter().any(|(_, s)| s.x != 0.0 || s.y != 0.0);
    if b.deviation != 0.0 && offset {
        h.nontrivial(fp(&(b.salt, b.deviation.to_bits())));
    }
    if rotated_offset {
        h.class("building/has-rotated-offset-space");
    }
    if b.all_spaces().iter().any(|(_, s)| s.outline.len() > 4) {
        h.class("building/non-rectangular-outline");
    }
    h.sample(|| json!({"deviation": b.deviation, "spaces": b.all_spaces().iter().map(|(f, s)| json!({"floor_z": f.z, "x": s.x, "y": s.y, "azimuth": s.azimuth, "corners": s.outline.len(), "walls": s.walls.len()})).collect::<Vec<_>>()}));
    Verdict::Pass
}

// ---- metamorphic: turning the whole building

#[derive(Clone, Debug, Serialize, Deserialize)]
pub struct TurnCase {
    pub b: Bld,
    pub delta: f32,
}

fn compare_turned(h: &CaseH, m1: &Model, m2: &Model, delta: f64, what: &str) -> Verdict {
    let tol = 0.012;
    for w1 in &m1.walls {
        let w2 = match m2.walls.iter().find(|x| x.name == w1.name) {
            Some(w) => w,
            None => vfail!("C03:turn:wall-missing", "{}: wall {:?} missing after turning", what, w1.name),
        };
        if let (Some(c1), Some(c2)) = (corners_of(w1), corners_of(w2)) {
            let exp: Vec<V3> = c1.iter().map(|p| rot_cw(*p, delta)).collect();
            let scale = exp.iter().map(|p| p[0].abs().max(p[1].abs())).fold(1.0, f64::max);
            if let Some((p, dist)) = same_set(&exp, &c2, tol + 2e-4 * scale) {
                vfail!("C03:turn:position", "{}: turning the building by {} should turn wall {:?} to {:?} but a corner is {:.3} m off ({:?})", what, delta, w1.name, p, dist, c2);
            }
        }
        let da = ((w2.geometry.azimuth as f64 - (w1.geometry.azimuth as f64 - delta) + 540.0).rem_euclid(360.0) - 180.0).abs();
        vensure!(da < 0.03, "C03:turn:azimuth", "{}: wall {:?}: azimuth {} -> {} after turning by {} (expected a shift of -{})", what, w1.name, w1.geometry.azimuth, w2.geometry.azimuth, delta, delta);
        vensure!(w1.geometry.tilt == w2.geometry.tilt, "C03:turn:tilt", "{}: wall {:?}: tilt changes {} -> {}", what, w1.name, w1.geometry.tilt, w2.geometry.tilt);
        vensure!((w1.area() - w2.area()).abs() <= 1e-3 * w1.area() + 1e-3, "C03:turn:area", "{}: wall {:?}: area changes {} -> {}", what, w1.name, w1.area(), w2.area());
    }
    for s1 in &m1.shades {
        if let Some(s2) = m2.shades.iter().find(|x| x.name == s1.name) {
            let c = |s: &bemodel::Shade| s.geometry.to_global_coords_matrix().map(|mm| s.geometry.polygon.iter().map(|p| { let g = mm * nalgebra::point![p.x, p.y, 0.0]; [g.x as f64, g.y as f64, g.z as f64] }).collect::<Vec<V3>>());
            if let (Some(c1), Some(c2)) = (c(s1), c(s2)) {
                let exp: Vec<V3> = c1.iter().map(|p| rot_cw(*p, delta)).collect();
                let scale = exp.iter().map(|p| p[0].abs().max(p[1].abs())).fold(1.0, f64::max);
                if let Some((p, dist)) = same_set(&exp, &c2, tol + 3e-4 * scale) {
                    vfail!("C03:turn:shade-position", "{}: turning the building by {} should turn shade {:?} to {:?} but a corner is {:.3} m off", what, delta, s1.name, p, dist);
                }
            }
        }
    }
    let (i1, i2) = match (indicators(m1), indicators(m2)) {
        (Ok(a), Ok(b)) => (a, b),
        (Err(v), _) | (_, Err(v)) => return v,
    };
    let r = |a: f32, b: f32| (a - b).abs() <= 2e-4 * a.abs().max(b.abs()) + 1e-4;
    vensure!(r(i1.area_ref, i2.area_ref) && r(i1.vol_env_net, i2.vol_env_net) && r(i1.vol_env_gross, i2.vol_env_gross), "C03:turn:areas-volumes", "{}: A_ref/volumes change when the building is turned: {} {} -> {} {}", what, i1.area_ref, i1.vol_env_net, i2.area_ref, i2.vol_env_net);
    vensure!(r(i1.K_data.K, i2.K_data.K) && r(i1.n50_data.n50, i2.n50_data.n50), "C03:turn:K-n50", "{}: K/n50 change when the building is turned: {} {} -> {} {}", what, i1.K_data.K, i1.n50_data.n50, i2.K_data.K, i2.n50_data.n50);
    for (id, p1) in &i1.props.walls {
        if let Some(p2) = i2.props.walls.get(id).or_else(|| {
            let n = &m1.walls.iter().find(|w| &w.id == id)?.name;
            let w2 = m2.walls.iter().find(|w| &w.name == n)?;
            i2.props.walls.get(&w2.id)
        }) {
            vensure!(p1.u_value == p2.u_value, "C03:turn:u-value", "{}: a wall U-value changes when the building is turned: {:?} -> {:?}", what, p1.u_value, p2.u_value);
        }
    }
    h.evals(m1.walls.len() as u64);
    Verdict::Pass
}

fn check_turn(h: &CaseH, c: &TurnCase) -> Verdict {
    let mut b2 = c.b.clone();
    b2.deviation = ((c.b.deviation + c.delta) * 100.0).round() / 100.0;
    let delta = (b2.deviation - c.b.deviation) as f64;
    let (r1, r2) = (catch(|| convert_bdl_text(&gb::print_bdl(&c.b))), catch(|| convert_bdl_text(&gb::print_bdl(&b2))));
    let (m1, m2) = match (r1, r2) {
        (Ok(Ok(a)), Ok(Ok(b))) => (a.1, b.1),
        (Err(p), _) | (_, Err(p)) => return Verdict::from_panic("C03:convert", &p),
        _ => vfail!("C03:generated-not-converted", "a well-formed generated building is rejected"),
    };
    let v = compare_turned(h, &m1, &m2, delta, "generated building");
    if c.b.all_spaces().iter().any(|(_, s)| s.x != 0.0 || s.y != 0.0) {
        h.nontrivial(fp(&(c.b.salt, c.delta.to_bits())));
    }
    h.sample(|| json!({"deviation": c.b.deviation, "delta": delta}));
    v
}

// ---- real projects

#[derive(Clone, Debug, Serialize, Deserialize)]
pub struct RealTurn {
    pub file: String,
    pub delta: f32,
}

fn real_bdl(path: &str) -> String {
    if path.to_lowercase().ends_with(".ctehexml") {
        let t = std::fs::read_to_string(path).unwrap_or_default();
        match (t.find("<EntradaGraficaLIDER>"), t.find("</EntradaGraficaLIDER>")) {
            (Some(a), Some(b)) => t[a + "<EntradaGraficaLIDER>".len()..b].replace("<![CDATA[", "").replace("]]>", ""),
            _ => String::new(),
        }
    } else {
        crate::util::read_latin1(std::path::Path::new(path))
    }
}

/// conversion of a real BDL text with the LIDER catalogue merged (as parse_with_catalog does)
pub fn convert_real(text: &str) -> Result<(Data, Model), String> {
    let d = Data::new(text).map_err(|e| format!("parse: {}", e))?;
    let mut c = CtehexmlData::default();
    c.bdldata = d.clone();
    let cat = hulc::ctehexml::load_lider_catalog().map_err(|e| e.to_string())?;
    let db = &mut c.bdldata.db;
    db.materials.extend(cat.materials);
    db.wallcons.extend(cat.wallcons);
    db.wincons.extend(cat.wincons);
    db.glasses.extend(cat.glasses);
    db.frames.extend(cat.frames);
    let m = Model::try_from(&c).map_err(|e| format!("convert: {}", e))?;
    Ok((d, m))
}

fn set_deviation(text: &str, newdev: f64) -> Option<String> {
    // rewrite the AZIMUTH value inside the BUILD-PARAMETERS block
    let pos = text.find("= BUILD-PARAMETERS")?;
    let end = text[pos..].find("..")? + pos;
    let blk = &text[pos..end];
    let mut out = String::new();
    let mut done = false;
    for line in blk.split_inclusive('\n') {
        let t = line.trim_start();
        if !done && t.starts_with("AZIMUTH") && t[7..].trim_start().starts_with('=') {
            let eol = if line.ends_with("\r\n") { "\r\n" } else { "\n" };
            out.push_str(&format!("           AZIMUTH   = {:.6}{}", newdev, eol));
            done = true;
        } else {
            out.push_str(line);
        }
    }
    if !done {
        return None;
    }
    Some(format!("{}{}{}", &text[..pos], out, &text[end..]))
}

fn check_real(h: &CaseH, c: &RealTurn) -> Verdict {
    let text = real_bdl(&c.file);
    let what = c.file.trim_start_matches("/repo/hulc_tests/tests/").to_string();
    let (d, m) = match catch(|| convert_real(&text)) {
        Ok(Ok(x)) => x,
        Ok(Err(_)) => {
            h.class("not-convertible");
            return Verdict::Pass;
        }
        Err(p) => return Verdict::from_panic("C03:convert", &p),
    };
    h.class("convertible");
    let v = check_geometry(h, &d, &m, &what);
    if v.is_fail() {
        return v;
    }
    h.nontrivial(fp(c));
    if c.delta != 0.0 {
        let dev = d.meta.get(&BdlBlockType::BuildParameters).and_then(|b| b.attrs.get_f32("AZIMUTH").ok()).unwrap_or(0.0) as f64;
        if let Some(t2) = set_deviation(&text, dev + c.delta as f64) {
            match catch(|| convert_real(&t2)) {
                Ok(Ok((_, m2))) => {
                    h.class("turned");
                    return compare_turned(h, &m, &m2, c.delta as f64, &what);
                }
                Ok(Err(e)) => vfail!("C03:turn:not-converted", "{}: not convertible after changing the global deviation: {}", what, e),
                Err(p) => return Verdict::from_panic("C03:convert", &p),
            }
        }
    }
    Verdict::Pass
}

pub fn run(args: &Args) -> ! {
    let ctx = Ctx::new("C03", "exploration", args);
    ctx.rule("generated buildings (1-3 storeys x 1-3 spaces with rectangular, L-shaped and star-shaped counter-clockwise outlines, space offsets in +-40 m, space azimuths 0 / 90 / 180 / random, global deviation 0 / 180 / random, walls on every outline edge, TOP/BOTTOM from the outline, walls with their own polygon, windows with offset/size/setback, rectangular and vertex shades; SPACE HEIGHT attribute equal to, absent or different from the storey height) and all convertible shipped projects (expectations derived from the parsed source data); oracle: global corner points from the source definition with DOE-2 semantics in f64 (corner sets within 1 cm), outward normals, azimuth convention, areas (shoelace), window size/offset/setback and the element each window belongs to (from the generated building), shade corners; metamorphic: the same building with its global deviation increased by delta: every position turned by -delta, azimuths shifted, tilt/areas/volumes/U-values/K/n50 unchanged (shipped projects: AZIMUTH of BUILD-PARAMETERS rewritten in the text). Non-trivial: deviation != 0 and a space with non-zero offset.");
    ctx.assume("space outlines are counter-clockwise (1292 of 1294 shipped outlines; clockwise ones are checked for position and counted, their normals are not asserted)");
    ctx.replay_regressions(replay_one);
    let files: Vec<String> = crate::util::files_with_ext(std::path::Path::new("/repo/hulc_tests/tests"), &["ctehexml", "cte"]).into_iter().map(|p| p.to_string_lossy().to_string()).collect();
    let mut cases = vec![];
    for f in &files {
        cases.push(RealTurn { file: f.clone(), delta: 0.0 });
        let k = ctx.tier().pick(1, 4);
        for j in 0..k {
            let d = 10.0 + (crate::engine::mix(ctx.seed(), f, j as u64) % 3400) as f32 / 10.0;
            cases.push(RealTurn { file: f.clone(), delta: d });
        }
    }
    ctx.run_enum("real", &cases, false, check_real);
    ctx.run_prop("generated", ctx.tier().pick(1_500, 60_000), gb::bld, check_bld);
    ctx.run_prop("turned", ctx.tier().pick(400, 20_000), || (gb::bld(), prop_oneof![dec2(1.0, 359.0), Just(90.0f32), Just(180.0f32)]).prop_map(|(b, delta)| TurnCase { b, delta }), check_turn);
    for c in ["generated/edge-wall/space/plain", "generated/edge-wall/space/offset", "generated/edge-wall/space/rotated+offset", "generated/top/space/plain", "generated/bottom/space/plain", "generated/own-polygon/space/plain", "generated/shade/rectangle", "generated/shade/vertices", "generated/window-with-setback", "generated/building/non-rectangular-outline", "generated/space-height-attribute-differs-from-storey", "generated/window-parent-checked/roof", "generated/window-parent-checked/other", "real/convertible", "real/turned"] {
        ctx.require_class(c);
    }
    ctx.finish()
}

pub fn replay_one(ctx: &Ctx, doc: &ReplayDoc) {
    use crate::engine::replay_case;
    match doc.sub.as_str() {
        "generated" => replay_case::<Bld>(ctx, &doc.sub, &doc.case, check_bld),
        "turned" => replay_case::<TurnCase>(ctx, &doc.sub, &doc.case, check_turn),
        "real" => replay_case::<RealTurn>(ctx, &doc.sub, &doc.case, check_real),
        s => ctx.infra_error(format!("unknown sub {}", s)),
    }
}
