//! C11 — reference area, volumes, compactness, envelope membership, ventilation rate,
//! scaling law and angle classifiers.

use proptest::prelude::*;
use serde_json::json;

use bemodel::{BoundaryType, Model, Orientation, Tilt};

use crate::engine::{fp, Args, CaseH, Ctx, ReplayDoc, Verdict};
use crate::gen::geom::dec2;
use crate::gen::model::{self, Params, Plan};
use crate::oracle::envelope::{self as env, TiltC};
use crate::props::envelope_props::{indicators, mixed_plan, shipped_models};
use crate::util::close;
use crate::{vensure, vfail};

fn check_model(h: &CaseH, m: &Model) -> Verdict {
    let ind = match indicators(m) {
        Ok(i) => i,
        Err(v) => return v,
    };
    let e = env::envelope(m);
    let g = &ind.props.global;
    let (mut a_ref, mut vg, mut vn, mut vinh) = (0.0f64, 0.0f64, 0.0f64, 0.0f64);
    let (mut outside, mut uninh, mut mult) = (false, false, false);
    for s in &m.spaces {
        let si = &e.spaces[&s.id];
        let sp = match ind.props.spaces.get(&s.id) {
            Some(p) => p,
            None => vfail!("C11:space-missing", "space {} missing from props", s.id),
        };
        vensure!(close(sp.area as f64, si.area, 2e-3, 1e-4), "C11:space-area", "space area reported {} expected {:.4}", sp.area, si.area);
        let hn = sp.height_net as f64;
        vensure!(si.height_net_candidates.iter().any(|c| (c - hn).abs() < 1.5e-3), "C11:net-height", "net height reported {} but gross height {} minus a ceiling thickness gives {:?}", hn, si.height, si.height_net_candidates);
        vensure!(close(sp.volume_net as f64, si.area * hn, 2e-2, 1e-4), "C11:space-volume", "space net volume reported {} expected {:.4}", sp.volume_net, si.area * hn);
        if si.inside {
            vg += si.area * si.height * si.mult;
            vn += si.area * hn * si.mult;
            if si.habitable {
                a_ref += si.area * si.mult;
                vinh += si.area * hn * si.mult;
            } else {
                uninh = true;
            }
        } else {
            outside = true;
        }
        if si.mult != 1.0 {
            mult = true;
        }
    }
    let rt = 2e-4;
    vensure!(close(ind.area_ref as f64, a_ref, 0.011, rt) && g.a_ref == ind.area_ref, "C11:a_ref", "A_ref reported {} expected {:.3}", ind.area_ref, a_ref);
    vensure!(close(ind.vol_env_gross as f64, vg, 0.011, rt) && g.vol_env_gross == ind.vol_env_gross, "C11:vol_gross", "gross volume reported {} expected {:.3}", ind.vol_env_gross, vg);
    vensure!(close(ind.vol_env_net as f64, vn, 0.011, rt) && g.vol_env_net == ind.vol_env_net, "C11:vol_net", "net volume reported {} expected {:.3}", ind.vol_env_net, vn);
    vensure!(close(g.vol_env_inh_net as f64, vinh, 0.011, rt), "C11:vol_inh_net", "habitable net volume inside the envelope reported {} expected {:.3}", g.vol_env_inh_net, vinh);
    // envelope membership and exposed area
    let mut exposed = 0.0f64;
    for w in &m.walls {
        let wi = &e.walls[&w.id];
        let wp = match ind.props.walls.get(&w.id) {
            Some(p) => p,
            None => vfail!("C11:wall-missing", "wall {} missing from props", w.id),
        };
        vensure!(wp.is_tenv == wi.is_tenv, "C11:is_tenv", "wall {:?} (bounds {:?}, own space inside: {:?}) is_tenv reported {} expected {}", w.name, w.bounds, wi.space_inside, wp.is_tenv, wi.is_tenv);
        vensure!(env::tilt_of(wp.tilt) == wi.tilt, "C11:wall-tilt-class", "wall tilt {} classified {:?}, expected {:?}", w.geometry.tilt, wp.tilt, wi.tilt);
        vensure!(env::orientation_name(wp.orientation) == wi.orient, "C11:wall-orientation-class", "wall tilt {} azimuth {} classified {:?}, expected {}", w.geometry.tilt, w.geometry.azimuth, wp.orientation, wi.orient);
        vensure!(close(wp.area_gross as f64, wi.area_gross, 2e-3, 1e-4), "C11:wall-area", "wall gross area reported {} expected {:.4}", wp.area_gross, wi.area_gross);
        vensure!(close(wp.area_net as f64, wi.area_net_raw, 0.0101, 1e-4), "C11:wall-net-area", "wall net area reported {} expected {:.4}", wp.area_net, wi.area_net_raw);
        vensure!(wp.multiplier as f64 == wi.mult, "C11:wall-multiplier", "wall multiplier reported {} expected {}", wp.multiplier, wi.mult);
        if wi.is_tenv && (wi.bounds == BoundaryType::EXTERIOR || wi.bounds == BoundaryType::GROUND) {
            exposed += wi.area_gross * wi.mult;
        }
        if wi.is_tenv && wi.bounds == BoundaryType::INTERIOR {
            h.class("interior-envelope-element");
        }
        if wi.is_tenv && wi.bounds == BoundaryType::ADIABATIC {
            h.class("adiabatic-envelope-element");
        }
    }
    for w in &m.windows {
        if let (Some(p), Some(wi)) = (ind.props.windows.get(&w.id), e.walls.get(&w.wall)) {
            vensure!(p.is_tenv == wi.is_tenv && p.multiplier as f64 == wi.mult, "C11:window-inherits", "window does not inherit envelope membership / multiplier of its wall");
        }
    }
    let comp = if exposed == 0.0 { 0.0 } else { ind.vol_env_gross as f64 / exposed };
    vensure!(close(ind.compactness as f64, comp, 1e-4, 3e-4) && g.compactness == ind.compactness, "C11:compactness", "compactness reported {} expected {:.5} (V={} A={:.3})", ind.compactness, comp, ind.vol_env_gross, exposed);
    // ventilation: the reported rate is the one used inside the U-value calculation
    let used = m.global_ventilation_rate() as f64;
    let rep = g.global_ventilation_rate as f64;
    vensure!(rep.is_finite() && used.is_finite(), "C11:ventilation-non-finite", "ventilation rate reported {} / used {}", rep, used);
    vensure!(close(rep, used, 1e-6, 1e-4), "C11:ventilation-rate-mismatch", "ventilation rate reported with the indicators is {} but the U-value calculation uses {}", rep, used);
    match m.meta.global_ventilation_l_s {
        Some(q) if vinh > 0.05 => {
            let expect = 3.6 * q as f64 / vinh;
            let tol = 3.6 * q as f64 * 0.011 / (vinh * vinh) + 3e-4 * expect;
            vensure!((used - expect).abs() <= tol, "C11:ventilation-rate", "ventilation rate {} expected 3.6*{}/{:.3} = {:.5}", used, q, vinh, expect);
            h.class("ventilation/given");
        }
        None => {
            vensure!(used == 0.0, "C11:ventilation-rate", "no building ventilation given but the rate is {}", used);
        }
        _ => {
            h.class("ventilation/zero-volume");
        }
    }
    if outside && uninh && mult {
        h.nontrivial(fp(&json!([m.spaces.len(), m.walls.len(), (a_ref * 100.0) as i64, (vg * 100.0) as i64])));
    }
    if outside {
        h.class("outside-space");
    }
    if uninh {
        h.class("uninhabited-inside");
    }
    if mult {
        h.class("multiplier");
    }
    if e.spaces.values().any(|s| s.height_net_candidates.len() > 1) {
        h.class("several-ceiling-candidates");
    }
    Verdict::Pass
}

fn check_plan(h: &CaseH, pl: &Plan) -> Verdict {
    let m = model::build(pl);
    let mut v = check_model(h, &m);
    // the same building after an edit that leaves every space record as it is (floor slabs made deeper), computed
    // next in the same thread: areas, volumes and both ventilation rates must follow the edit
    if matches!(v, Verdict::Pass) && pl.salt % 3 == 0 {
        let mut m2 = m.clone();
        let mut edited = false;
        for w in m2.walls.iter_mut() {
            if env::tilt_class(w.geometry.tilt as f64) == TiltC::Bottom && !w.geometry.polygon.is_empty() {
                for p in w.geometry.polygon.iter_mut() {
                    p.y *= 1.5;
                }
                edited = true;
            }
        }
        // windows of a glazed floor keep their place (they lie inside the enlarged slab)
        if edited {
            h.class("floors-edited-with-spaces-unchanged");
            v = check_model(h, &m2);
        }
    }
    h.sample(|| json!({"spaces": pl.spaces.iter().map(|s| json!({"kind": s.kind, "inside": s.inside, "mult": s.mult, "w": s.w, "d": s.d, "h": s.height, "floors": s.floors.len(), "ceiling": s.ceiling.as_ref().map(|c| c.1)})).collect::<Vec<_>>()}));
    v
}

// ---- scaling

fn scaled_plan(pl: &Plan, s: f32) -> Plan {
    let mut p = pl.clone();
    for sp in &mut p.spaces {
        sp.w *= s;
        sp.d *= s;
        sp.height *= s;
        sp.z *= s;
        sp.ox *= s;
        sp.oy *= s;
    }
    for c in &mut p.wallcons {
        for l in &mut c.layers {
            l.1 *= s;
        }
    }
    p
}

fn check_scaling(h: &CaseH, c: &(Plan, f32)) -> Verdict {
    let (pl, s) = c;
    let s64 = *s as f64;
    let m1 = model::build(pl);
    let m2 = model::build(&scaled_plan(pl, *s));
    let (i1, i2) = match (indicators(&m1), indicators(&m2)) {
        (Ok(a), Ok(b)) => (a, b),
        (Err(v), _) | (_, Err(v)) => return v,
    };
    let rt = 1.5e-3;
    // rounding of the reported figures (two decimals) on both sides
    let chk = |name: &str, a: f32, b: f32, pw: i32| -> Option<Verdict> {
        let f = s64.powi(pw);
        let tol = 0.011 * (1.0 + f) + rt * (a as f64 * f).abs();
        if (b as f64 - a as f64 * f).abs() > tol {
            Some(Verdict::fail(format!("C11:scaling:{}", name), format!("{}: {} at scale 1, {} at scale {} (expected x{:.4} = {:.4})", name, a, b, s, f, a as f64 * f)))
        } else {
            None
        }
    };
    for (n, a, b, pw) in [
        ("a_ref", i1.area_ref, i2.area_ref, 2),
        ("vol_gross", i1.vol_env_gross, i2.vol_env_gross, 3),
        ("vol_net", i1.vol_env_net, i2.vol_env_net, 3),
        ("compactness", i1.compactness, i2.compactness, 1),
    ] {
        if let Some(v) = chk(n, a, b, pw) {
            return v;
        }
    }
    for (id, w1) in &i1.props.walls {
        if let Some(w2) = i2.props.walls.get(id) {
            if let Some(v) = chk("wall-area", w1.area_gross, w2.area_gross, 2) {
                return v;
            }
        }
    }
    if i1.area_ref > 1.0 && (*s - 1.0).abs() > 0.05 {
        h.nontrivial(fp(&json!([(i1.area_ref * 100.0) as i64, (*s * 100.0) as i32])));
    }
    h.sample(|| json!({"scale": s, "a_ref": [i1.area_ref, i2.area_ref], "vol": [i1.vol_env_gross, i2.vol_env_gross], "compactness": [i1.compactness, i2.compactness]}));
    Verdict::Pass
}

// ---- classifiers

const BAND: f64 = 2e-3;

fn near_threshold(x: f64, thresholds: &[f64]) -> bool {
    let r = x.rem_euclid(360.0);
    thresholds.iter().any(|t| (r - t).abs() < BAND || (r - t - 360.0).abs() < BAND || (r - t + 360.0).abs() < BAND)
}

const TILT_T: [f64; 5] = [0.0, 60.0, 120.0, 240.0, 300.0];
const OR_T: [f64; 9] = [0.0, 18.0, 69.0, 120.0, 157.5, 202.5, 240.0, 291.0, 342.0];

fn classify_one(v: f32) -> Result<(bool, bool), Verdict> {
    let x = v as f64;
    let mut near = (false, false);
    // the model's classifier works on the angle modulo 360; inside [0, 360) the residue is the value itself
    let in_base = (0.0..360.0).contains(&x);
    let t_code = env::tilt_of(Tilt::from(v));
    let t_exp = env::tilt_class(x);
    if t_code != t_exp {
        if !in_base && near_threshold(x, &TILT_T) {
            near.0 = true;
        } else {
            return Err(Verdict::fail("C11:classifier:tilt", format!("Tilt::from({:?}) = {:?}, angle modulo 360 = {} is class {:?}", v, t_code, x.rem_euclid(360.0), t_exp)));
        }
    }
    let o_code = env::orientation_name(Orientation::from(v));
    let o_exp = env::orient_class(x);
    if o_code != o_exp {
        if !in_base && near_threshold(x, &OR_T) {
            near.1 = true;
        } else {
            return Err(Verdict::fail("C11:classifier:orientation", format!("Orientation::from({:?}) = {}, angle modulo 360 = {} is class {}", v, o_code, x.rem_euclid(360.0), o_exp)));
        }
    }
    // parser vs model on [0, 360]: identical, no band
    if (0.0..=360.0).contains(&x) {
        let pw = hulc::bdl::Wall {
            tilt: v,
            ..Default::default()
        };
        let p = match pw.position() {
            hulc::bdl::Tilt::TOP => TiltC::Top,
            hulc::bdl::Tilt::SIDE => TiltC::Side,
            hulc::bdl::Tilt::BOTTOM => TiltC::Bottom,
        };
        if p != t_code {
            return Err(Verdict::fail("C11:classifier:parser-vs-model", format!("tilt {:?}: parser says {:?}, model says {:?}", v, p, t_code)));
        }
    }
    Ok(near)
}

fn classifier_points(seed: u64, n_random: usize) -> Vec<f32> {
    let mut v = vec![];
    let mut ts: Vec<f64> = TILT_T.iter().chain(OR_T.iter()).copied().collect();
    ts.push(360.0);
    for t in ts {
        for k in -2i32..=2 {
            let c = (t + 360.0 * k as f64) as f32;
            let bits = c.to_bits() as i64;
            for d in -4096i64..=4096 {
                let b = bits + if c >= 0.0 { d } else { -d };
                if b >= 0 {
                    v.push(f32::from_bits(b as u32));
                }
            }
            if c == 0.0 {
                for d in 0u32..4096 {
                    v.push(f32::from_bits(d));
                    v.push(-f32::from_bits(d));
                }
            }
        }
    }
    // deterministic pseudo-random values in [-720, 1080] (xorshift; not a property-level random choice:
    // the set is a pure function of the seed)
    let mut s = seed.wrapping_mul(0x9E3779B97F4A7C15) | 1;
    for _ in 0..n_random {
        s ^= s << 13;
        s ^= s >> 7;
        s ^= s << 17;
        let u = (s >> 11) as f64 / (1u64 << 53) as f64;
        v.push((-720.0 + 1800.0 * u) as f32);
    }
    v
}

fn run_classifiers(ctx: &Ctx) {
    let pts = classifier_points(ctx.seed(), ctx.tier().pick(1_000_000, 4_000_000));
    let chunks: Vec<Vec<f32>> = pts.chunks(50_000).map(|c| c.to_vec()).collect();
    ctx.run_enum("classifiers", &(0..chunks.len()).collect::<Vec<_>>(), false, |h, i| {
        for v in &chunks[*i] {
            match classify_one(*v) {
                Ok((a, b)) => {
                    if a || b {
                        h.class("inside-dont-care-band");
                    }
                    let r = (*v as f64).rem_euclid(360.0);
                    if TILT_T.iter().chain(OR_T.iter()).any(|t| (r - t).abs() < 1.0) {
                        h.nontrivial(v.to_bits() as u64);
                    }
                }
                Err(verdict) => return verdict,
            }
        }
        h.evals(chunks[*i].len() as u64 - 1);
        h.sample(|| json!({"angles": &chunks[*i][..4]}));
        Verdict::Pass
    });
    if ctx.tier() == crate::engine::Tier::Thorough {
        // exhaustive: every f32 in [-720, 1080]
        let lo_neg = 720.0f32.to_bits(); // negative values: bits 0x80000000 | 0..=lo_neg
        let hi_pos = 1080.0f32.to_bits();
        let mut ranges: Vec<(u32, u32, bool)> = vec![];
        let step = 1u32 << 22;
        let mut b = 0u32;
        while b <= hi_pos {
            ranges.push((b, (b.saturating_add(step - 1)).min(hi_pos), false));
            b = match b.checked_add(step) {
                Some(x) => x,
                None => break,
            };
        }
        let mut b = 0u32;
        while b <= lo_neg {
            ranges.push((b, (b.saturating_add(step - 1)).min(lo_neg), true));
            b = match b.checked_add(step) {
                Some(x) => x,
                None => break,
            };
        }
        ctx.run_enum("classifiers_exhaustive", &ranges, true, |h, (a, b, neg)| {
            let mut bits = *a;
            loop {
                let v = if *neg { -f32::from_bits(bits) } else { f32::from_bits(bits) };
                if let Err(verdict) = classify_one(v) {
                    return verdict;
                }
                if bits == *b {
                    break;
                }
                bits += 1;
            }
            h.evals((*b - *a) as u64);
            h.nontrivial(fp(&(a, b, neg)));
            Verdict::Pass
        });
    }
}

pub fn run(args: &Args) -> ! {
    let ctx = Ctx::new("C11", "exploration", args);
    ctx.rule("models: generated plans (spaces inside/outside, three kinds, multipliers, 1-2 floors per space, ceilings owned or given from the space above, rotated footprints, open and closed) and the shipped models; oracle: f64 recomputation of areas (shoelace), net heights (gross minus one ceiling candidate's thickness), A_ref, volumes, exposed area and compactness, envelope rule per wall, and the two ventilation-rate implementations against 3.6 q / V. scaling: plan scaled by s in [0.25,4] => areas x s^2, volumes x s^3, compactness x s. classifiers: every class boundary shifted by k*360 (k=-2..2) +-4096 ulps plus 10^6 pseudo-random f32 in [-720,1080] (thorough: every f32 in that interval), Tilt::from / Orientation::from against the exact residue modulo 360 (don't-care band 2e-3 degrees outside [0,360)), and hulc Wall::position against Tilt::from on [0,360] without band. Non-trivial: model with an outside space, an uninhabited inside space and a multiplier != 1; angle within 1 degree of a threshold.");
    ctx.replay_regressions(replay_one);
    let real = shipped_models();
    ctx.run_enum("shipped", &real.iter().map(|(n, _)| n.clone()).collect::<Vec<_>>(), true, |h, name| {
        let m = &real.iter().find(|(n, _)| n == name).unwrap().1;
        h.nontrivial(fp(name));
        check_model(h, m)
    });
    ctx.run_prop("generated", ctx.tier().pick(30_000, 400_000), mixed_plan, check_plan);
    ctx.run_prop(
        "scaling",
        ctx.tier().pick(10_000, 100_000),
        || (model::plan(Params { open: false, uses: false, shades: 0, ..Params::default() }), prop_oneof![dec2(0.25, 4.0), Just(2.0f32), Just(0.5f32)]),
        check_scaling,
    );
    run_classifiers(&ctx);
    for c in ["generated/outside-space", "generated/uninhabited-inside", "generated/multiplier", "generated/interior-envelope-element", "generated/adiabatic-envelope-element", "generated/ventilation/given", "generated/several-ceiling-candidates", "generated/floors-edited-with-spaces-unchanged"] {
        ctx.require_class(c);
    }
    ctx.finish()
}

pub fn replay_one(ctx: &Ctx, doc: &ReplayDoc) {
    use crate::engine::replay_case;
    match doc.sub.as_str() {
        "generated" => replay_case::<Plan>(ctx, &doc.sub, &doc.case, check_plan),
        "scaling" => replay_case::<(Plan, f32)>(ctx, &doc.sub, &doc.case, check_scaling),
        "shipped" => {
            let name: String = serde_json::from_value(doc.case.clone()).unwrap_or_default();
            if let Some((_, m)) = shipped_models().into_iter().find(|(n, _)| *n == name) {
                replay_case::<String>(ctx, "shipped", &doc.case, |h, _| check_model(h, &m));
            }
        }
        s => ctx.infra_error(format!("replay of sub {} is not supported (enumerated domain: rerun the check)", s)),
    }
}
