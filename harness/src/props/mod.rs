//! One module per property; dispatch by id.

use serde_json::Value;

use crate::engine::{Args, Ctx, ReplayDoc};

pub mod c13;
pub mod c13b;
pub mod c14;
pub mod c17;
pub mod c18;
pub mod c18b;
pub mod c19;
pub mod c20;
pub mod c01;
pub mod c02;
pub mod c03;
pub mod c05;
pub mod c06;
pub mod c11;
pub mod c12;
pub mod envelope_props;
pub mod model_props;

pub fn run(args: &Args) -> ! {
    match args.property.as_str() {
        "C13" => c13::run(args),
        "C08" => envelope_props::run_c08(args),
        "C09" => envelope_props::run_c09(args),
        "C10" => envelope_props::run_c10(args),
        "C11" => c11::run(args),
        "C04" => model_props::run_c04(args),
        "C07" => model_props::run_c07(args),
        "C15" => model_props::run_c15(args),
        "C16" => model_props::run_c16(args),
        "C20" => c20::run(args),
        "C19" => c19::run(args),
        "C14" => c14::run(args),
        "C06" => c06::run(args),
        "C12" => c12::run(args),
        "C18" => c18::run(args),
        "C03" => c03::run(args),
        "C02" => c02::run(args),
        "C17" => c17::run(args),
        "C05" => c05::run(args),
        "C01" => c01::run(args),
        p => {
            eprintln!("INFRA: unknown property '{}'", p);
            std::process::exit(2)
        }
    }
}

pub fn replay(args: &Args, doc: &ReplayDoc) -> ! {
    let level = level_of(&doc.property);
    let ctx = Ctx::new(&doc.property, level, args);
    replay_one(&ctx, doc);
    ctx.finish()
}

pub fn level_of(id: &str) -> &'static str {
    match id {
        "C19" => "fault_enumeration",
        _ => "exploration",
    }
}

pub fn replay_one(ctx: &Ctx, doc: &ReplayDoc) {
    if doc.sub.starts_with("fuzz:") {
        return crate::fuzz::replay_one(ctx, doc);
    }
    match doc.property.as_str() {
        "C13" => c13::replay_one(ctx, doc),
        "C08" | "C09" | "C10" => envelope_props::replay_one(ctx, doc),
        "C11" => c11::replay_one(ctx, doc),
        "C04" | "C07" | "C15" | "C16" => model_props::replay_one(ctx, doc),
        "C20" => c20::replay_one(ctx, doc),
        "C19" => c19::replay_one(ctx, doc),
        "C14" => c14::replay_one(ctx, doc),
        "C06" => c06::replay_one(ctx, doc),
        "C12" => c12::replay_one(ctx, doc),
        "C18" => c18::replay_one(ctx, doc),
        "C03" => c03::replay_one(ctx, doc),
        "C02" => c02::replay_one(ctx, doc),
        "C17" => c17::replay_one(ctx, doc),
        "C05" => c05::replay_one(ctx, doc),
        "C01" => c01::replay_one(ctx, doc),
        p => ctx.infra_error(format!("unknown property '{}' in replay file", p)),
    }
}

/// Dispatch inside a worker process; `sub` is "<ID>.<name>"
pub fn worker_dispatch(sub: &str, v: Value) -> Value {
    match sub.split('.').next().unwrap_or("") {
        "C13" => c13::worker(sub, v),
        "C19" => c19::worker(sub, v),
        "C14" => c14::worker(sub, v),
        "C05" => c05::worker(sub, v),
        "C02" => c02::worker(sub, v),
        _ => Value::Null,
    }
}
