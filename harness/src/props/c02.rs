//! C02 — converted models are referentially closed, or conversion fails with an error.

use std::collections::HashSet;

use proptest::prelude::*;
use serde::{Deserialize, Serialize};
use serde_json::json;

use bemodel::{Model, Uuid};
use hulc::ctehexml;

use crate::engine::{catch, fp, mix, Args, CaseH, Ctx, ReplayDoc, Tier, Verdict};
use crate::gen::building::{self as gb, Bld};
use crate::gen::model::{broken_links, pick};
use crate::props::c03::convert_real;
use crate::{vensure, vfail};

/// closure of a converted model, computed by the harness
pub fn closure(m: &Model) -> Result<(), (String, String)> {
    let dup = |ids: Vec<Uuid>, what: &str| -> Result<(), (String, String)> {
        let mut s = HashSet::new();
        for i in ids {
            if !s.insert(i) {
                return Err((format!("C02:duplicate-id:{}", what), format!("id {} appears twice among {}", i, what)));
            }
        }
        Ok(())
    };
    dup(m.spaces.iter().map(|x| x.id).collect(), "spaces")?;
    dup(m.walls.iter().map(|x| x.id).collect(), "walls")?;
    dup(m.windows.iter().map(|x| x.id).collect(), "windows")?;
    dup(m.shades.iter().map(|x| x.id).collect(), "shades")?;
    dup(m.thermal_bridges.iter().map(|x| x.id).collect(), "thermal_bridges")?;
    dup(m.cons.wallcons.iter().map(|x| x.id).collect(), "wallcons")?;
    dup(m.cons.wincons.iter().map(|x| x.id).collect(), "wincons")?;
    dup(m.cons.materials.iter().map(|x| x.id).collect(), "materials")?;
    dup(m.cons.glasses.iter().map(|x| x.id).collect(), "glasses")?;
    dup(m.cons.frames.iter().map(|x| x.id).collect(), "frames")?;
    dup(m.loads.iter().map(|x| x.id).collect(), "loads")?;
    dup(m.thermostats.iter().map(|x| x.id).collect(), "thermostats")?;
    dup(m.schedules.year.iter().map(|x| x.id).collect(), "year schedules")?;
    dup(m.schedules.week.iter().map(|x| x.id).collect(), "week schedules")?;
    dup(m.schedules.day.iter().map(|x| x.id).collect(), "day schedules")?;
    if let Some((kind, owner, missing)) = broken_links(m).into_iter().next() {
        let name = m
            .walls
            .iter()
            .map(|w| (w.id, w.name.clone()))
            .chain(m.windows.iter().map(|w| (w.id, w.name.clone())))
            .chain(m.spaces.iter().map(|w| (w.id, w.name.clone())))
            .chain(m.cons.wincons.iter().map(|w| (w.id, w.name.clone())))
            .chain(m.cons.wallcons.iter().map(|w| (w.id, w.name.clone())))
            .find(|(i, _)| *i == owner)
            .map(|x| x.1)
            .unwrap_or_default();
        return Err((format!("C02:broken-link:{}", kind), format!("{} of {:?} ({}) refers to {} which is not in the model{}", kind, name, owner, missing, if missing.is_nil() { " (nil id)" } else { "" })));
    }
    let w = bemodel::check(m);
    if !w.is_empty() {
        return Err(("C02:checker-reports".to_string(), format!("the model checker reports {} problems, first: {}", w.len(), w[0].msg)));
    }
    Ok(())
}

fn verdict_closed(m: &Model, what: &str) -> Verdict {
    match closure(m) {
        Ok(()) => Verdict::Pass,
        Err((sig, msg)) => Verdict::fail(sig, format!("{}: {}", what, msg)),
    }
}

// ---- real projects

fn real_files() -> Vec<String> {
    crate::util::files_with_ext(std::path::Path::new("/repo/hulc_tests/tests"), &["ctehexml", "cte"]).into_iter().map(|p| p.to_string_lossy().to_string()).collect()
}

fn read_project(path: &str) -> String {
    if path.to_lowercase().ends_with(".ctehexml") {
        std::fs::read_to_string(path).unwrap_or_default()
    } else {
        crate::util::read_latin1(std::path::Path::new(path))
    }
}

fn convert_any(path: &str, text: &str) -> Result<Model, String> {
    if path.to_lowercase().ends_with(".ctehexml") {
        let d = ctehexml::parse_with_catalog(text).map_err(|e| format!("parse: {}", e))?;
        Model::try_from(&d).map_err(|e| format!("convert: {}", e))
    } else {
        convert_real(text).map(|x| x.1)
    }
}

/// outcome of a conversion as a comparable text: "ok:<digest of the JSON>" or "err"
fn outcome_digest(r: &Result<Model, String>) -> String {
    match r {
        Ok(m) => format!("ok:{:016x}", crate::engine::fnv64(m.as_json().unwrap_or_default().as_bytes())),
        Err(_) => "err".to_string(),
    }
}

/// worker side: converts one project text in a process that has converted nothing else
pub fn worker(_sub: &str, v: serde_json::Value) -> serde_json::Value {
    let path = v["path"].as_str().unwrap_or("").to_string();
    let text = v["text"].as_str().unwrap_or("").to_string();
    json!(outcome_digest(&convert_any(&path, &text)))
}

fn check_real(h: &CaseH, path: &String) -> Verdict {
    let text = read_project(path);
    let what = path.trim_start_matches("/repo/hulc_tests/tests/");
    // names are unique per kind in every real file (precondition of the property's domain)
    match catch(|| convert_any(path, &text)) {
        Ok(Ok(m)) => {
            h.class("converted");
            if !m.windows.is_empty() && !m.schedules.year.is_empty() {
                h.nontrivial(fp(path));
            }
            h.sample(|| json!({"file": what, "walls": m.walls.len(), "windows": m.windows.len(), "year_schedules": m.schedules.year.len()}));
            verdict_closed(&m, what)
        }
        Ok(Err(e)) => {
            h.class("rejected-with-error");
            h.sample(|| json!({"file": what, "error": e.lines().next().unwrap_or("")}));
            Verdict::Pass
        }
        Err(p) => Verdict::from_panic("C02:convert", &p),
    }
}

// ---- generated projects

fn check_bld(h: &CaseH, b: &Bld) -> Verdict {
    let systems = gb::shipped_systems_sections();
    let xml = gb::print_ctehexml(b, &systems);
    let m = match catch(|| convert_any("x.ctehexml", &xml)) {
        Ok(Ok(m)) => m,
        Ok(Err(e)) => vfail!("C02:generated-not-converted", "a well-formed generated project is rejected: {}", e.lines().next().unwrap_or("")),
        Err(p) => return Verdict::from_panic("C02:convert", &p),
    };
    let v = verdict_closed(&m, "generated project");
    if v.is_fail() {
        return v;
    }
    // every link the source declares is present in the model
    for (_, s) in b.all_spaces() {
        let ms = match m.spaces.iter().find(|x| x.name == s.name) {
            Some(x) => x,
            None => vfail!("C02:source-link:space-missing", "space {:?} missing", s.name),
        };
        if let Some(c) = s.space_conds {
            let name = &b.space_conds[pick(c, b.space_conds.len())].name;
            let lid = m.loads.iter().find(|l| &l.name == name).map(|l| l.id);
            vensure!(lid.is_some() && ms.loads == lid, "C02:source-link:space.loads", "space {:?} declares SPACE-CONDITIONS = {:?} but the model has loads = {:?} (definition id {:?})", s.name, name, ms.loads, lid);
        }
        if let Some(c) = s.system_conds {
            let name = &b.system_conds[pick(c, b.system_conds.len())].name;
            let tid = m.thermostats.iter().find(|l| &l.name == name).map(|l| l.id);
            vensure!(tid.is_some() && ms.thermostat == tid, "C02:source-link:space.thermostat", "space {:?} declares SYSTEM-CONDITIONS = {:?} but the model has thermostat = {:?}", s.name, name, ms.thermostat);
        }
        for w in &s.walls {
            let mw = match m.walls.iter().find(|x| x.name == w.name) {
                Some(x) => x,
                None => vfail!("C02:source-link:wall-missing", "wall {:?} missing", w.name),
            };
            vensure!(mw.space == ms.id, "C02:source-link:wall.space", "wall {:?} belongs to space {:?} in the source, to {} in the model", w.name, s.name, mw.space);
            let cname = b.construction_name(w);
            vensure!(m.cons.wallcons.iter().any(|c| c.id == mw.cons && c.name == cname), "C02:source-link:wall.cons", "wall {:?} declares construction {:?}; the model's construction is {:?}", w.name, cname, m.cons.wallcons.iter().find(|c| c.id == mw.cons).map(|c| c.name.clone()));
            if let gb::WallKind::Interior { next } = &w.kind {
                let nn = b.next_to(&s.name, *next);
                let nid = nn.as_ref().and_then(|n| m.spaces.iter().find(|x| &x.name == n)).map(|x| x.id);
                vensure!(mw.next_to == nid, "C02:source-link:wall.next_to", "wall {:?} declares NEXT-TO = {:?}; the model has {:?}", w.name, nn, mw.next_to);
                if nn.as_ref().map_or(false, |n| b.all_spaces().iter().any(|(_, x)| &x.name == n && x.walls.is_empty())) {
                    h.class("adjacent-space-without-elements-of-its-own");
                }
            }
            for win in &w.windows {
                let mwin = match m.windows.iter().find(|x| x.name == win.name) {
                    Some(x) => x,
                    None => vfail!("C02:source-link:window-missing", "window {:?} missing", win.name),
                };
                let gname = &b.gaps[pick(win.gap, b.gaps.len())].name;
                vensure!(mwin.wall == mw.id && m.cons.wincons.iter().any(|c| c.id == mwin.cons && &c.name == gname), "C02:source-link:window", "window {:?}: wall/gap links differ from the source ({:?}, {:?})", win.name, w.name, gname);
            }
        }
    }
    let nwin: usize = b.all_spaces().iter().map(|(_, s)| s.walls.iter().map(|w| w.windows.len()).sum::<usize>()).sum();
    if nwin > 0 && b.all_spaces().iter().any(|(_, s)| s.space_conds.is_some()) {
        h.nontrivial(fp(&(b.salt, nwin)));
    }
    if b.systems_from.is_some() {
        h.class("with-systems-section");
    }
    h.sample(|| json!({"spaces": m.spaces.len(), "walls": m.walls.len(), "windows": m.windows.len(), "loads": m.loads.len(), "year": m.schedules.year.len()}));
    Verdict::Pass
}

// ---- one reference-breaking edit

const DEF_TYPES: [&str; 17] = ["MATERIAL", "LAYERS", "CONSTRUCTION", "GLASS-TYPE", "NAME-FRAME", "GAP", "POLYGON", "FLOOR", "SPACE", "EXTERIOR-WALL", "INTERIOR-WALL", "ROOF", "UNDERGROUND-WALL", "DAY-SCHEDULE-PD", "WEEK-SCHEDULE-PD", "SCHEDULE-PD", "SPACE-CONDITIONS"];

#[derive(Clone, Debug, Serialize, Deserialize)]
pub struct EditCase {
    /// file path, or "" for a generated building
    pub file: String,
    pub bld: Option<Box<Bld>>,
    /// index of the definition among the referenced definitions of the text (scaled)
    pub def: u32,
    pub delete: bool,
    /// 1 = instead of breaking the reference, rename the definition AND every reference to it to a name with
    /// two consecutive blanks (a consistent respelling: the project stays meaningful)
    #[serde(default)]
    pub respell: u8,
}

/// (line index, name, type) of definitions whose quoted name occurs elsewhere in the text
fn referenced_definitions(text: &str) -> Vec<(usize, String, String)> {
    let lines: Vec<&str> = text.lines().collect();
    let mut out = vec![];
    for (i, l) in lines.iter().enumerate() {
        let t = l.trim();
        if !t.starts_with('"') {
            continue;
        }
        let rest = &t[1..];
        let q = match rest.find('"') {
            Some(q) => q,
            None => continue,
        };
        let name = &rest[..q];
        let after = rest[q + 1..].trim_start();
        if !after.starts_with('=') {
            continue;
        }
        let ty = after[1..].trim();
        let ty = if ty == "SYSTEM-CONDITIONS" { "SYSTEM-CONDITIONS" } else { ty };
        if !(DEF_TYPES.contains(&ty) || ty == "SYSTEM-CONDITIONS") || name.trim().is_empty() {
            continue;
        }
        // referenced elsewhere: as a value (= "name") or inside a list
        let quoted = format!("\"{}\"", name);
        let occurrences = text.matches(&quoted).count();
        // walls are referenced by position: the WINDOW blocks that follow them hang from them
        let positional = ["EXTERIOR-WALL", "INTERIOR-WALL", "ROOF", "UNDERGROUND-WALL"].contains(&ty) && {
            let mut found = false;
            for l2 in lines.iter().skip(i + 1) {
                let t2 = l2.trim();
                if t2.starts_with('"') {
                    if t2.ends_with("= WINDOW") {
                        found = true;
                        break;
                    }
                    if t2.ends_with("-WALL") || t2.ends_with("= ROOF") || t2.ends_with("= SPACE") || t2.ends_with("= FLOOR") {
                        break;
                    }
                }
            }
            found
        };
        if occurrences > 1 || positional {
            out.push((i, name.to_string(), ty.to_string()));
        }
    }
    out
}

fn apply_def_edit(text: &str, line: usize, name: &str, delete: bool) -> String {
    // same line numbering as str::lines() (used to locate the definition), whatever mix of line endings the
    // document has: split at \n and keep a trailing \r as part of the line
    let eol = "\n";
    let lines: Vec<&str> = text.split(eol).collect();
    let mut out: Vec<String> = vec![];
    let mut i = 0;
    while i < lines.len() {
        if i == line {
            if delete {
                // skip to the terminator of this block
                let mut j = i;
                while j < lines.len() && !(lines[j].trim() == ".." || lines[j].trim_end().ends_with("..")) {
                    j += 1;
                }
                i = j + 1;
                continue;
            } else {
                out.push(lines[i].replacen(&format!("\"{}\"", name), &format!("\"{}_zz\"", name), 1));
                i += 1;
                continue;
            }
        }
        out.push(lines[i].to_string());
        i += 1;
    }
    out.join(eol)
}

/// reference sites the converter must resolve: (line, key, referenced name, enclosing block name, its type)
fn reference_sites(text: &str) -> Vec<(usize, String, String, String, String)> {
    let mut out = vec![];
    let mut cur: Option<(String, String)> = None;
    for (i, l) in text.lines().enumerate() {
        let t = l.trim();
        if t.starts_with('"') {
            if let Some(q) = t[1..].find('"') {
                let after = t[q + 2..].trim_start();
                if let Some(ty) = after.strip_prefix('=') {
                    cur = Some((t[1..1 + q].to_string(), ty.trim().to_string()));
                    continue;
                }
            }
        }
        if t == ".." || t.ends_with("..") {
            cur = None;
            continue;
        }
        if let Some((bname, bty)) = &cur {
            let keys: &[&str] = match bty.as_str() {
                "SPACE-CONDITIONS" => &["PEOPLE-SCHEDULE", "EQUIP-SCHEDULE", "LIGHTING-SCHEDULE"],
                "GAP" => &["GLASS-TYPE", "NAME-FRAME"],
                "SPACE" => &["SPACE-CONDITIONS", "SYSTEM-CONDITIONS"],
                _ => &[],
            };
            for k in keys {
                if t.starts_with(k) && t[k.len()..].trim_start().starts_with('=') {
                    if let Some(a) = t.find('"') {
                        if let Some(b) = t[a + 1..].find('"') {
                            out.push((i, k.to_string(), t[a + 1..a + 1 + b].to_string(), bname.clone(), bty.clone()));
                        }
                    }
                }
            }
        }
    }
    out
}

/// respell = 2: ONE reference (not the definition) is changed to a name nobody defines
fn check_reference_edit(h: &CaseH, c: &EditCase) -> Verdict {
    let (path, text) = match &c.bld {
        Some(b) => ("x.ctehexml".to_string(), gb::print_ctehexml(b, &[])),
        None => (c.file.clone(), read_project(&c.file)),
    };
    let sites = reference_sites(&text);
    if sites.is_empty() {
        return Verdict::Pass;
    }
    let (line, key, name, bname, bty) = sites[(c.def as usize) % sites.len()].clone();
    let m0 = match catch(|| convert_any(&path, &text)) {
        Ok(Ok(m)) => m,
        _ => return Verdict::Pass,
    };
    let live = match bty.as_str() {
        "SPACE-CONDITIONS" => m0.loads.iter().filter(|x| x.name == bname).any(|l| m0.spaces.iter().any(|sp| sp.loads == Some(l.id))),
        "GAP" => m0.cons.wincons.iter().any(|x| x.name == bname),
        // a space's own conditions references are always resolved (explicit names must be defined)
        "SPACE" => m0.spaces.iter().any(|x| x.name == bname),
        _ => false,
    };
    // HULC repeats some blocks; only a block defined once can be broken through one of its lines
    let defs = text.lines().filter(|l| { let t = l.trim_start(); t.starts_with(&format!("\"{}\"", bname)) && t[bname.len() + 2..].trim_start().starts_with('=') }).count();
    let edited: String = text.split('\n').enumerate().map(|(i, l)| if i == line { l.replacen(&format!("\"{}\"", name), &format!("\"{}_zz\"", name), 1) } else { l.to_string() }).collect::<Vec<_>>().join("\n");
    let what = format!("{} with the reference {} = {:?} of {} {:?} changed to an undefined name", if c.bld.is_some() { "generated project" } else { c.file.trim_start_matches("/repo/hulc_tests/tests/") }, key, name, bty, bname);
    h.class(&format!("edit/reference/{}", key));
    h.nontrivial(fp(&(c.file.clone(), line, 2u8)));
    match catch(|| convert_any(&path, &edited)) {
        Ok(Err(_)) => {
            h.class("outcome/error");
            Verdict::Pass
        }
        Ok(Ok(m)) => {
            h.class("outcome/still-converted");
            let v = verdict_closed(&m, &what);
            if v.is_fail() {
                return v;
            }
            // a block that the built-in catalogue also defines is replaced by the catalogue's when the two are merged
            let block_in_catalogue = CATALOGUE_NAMES.with(|c| c.contains(&bname));
            if live && defs == 1 && !block_in_catalogue {
                return Verdict::fail(format!("C02:edit:broken-live-reference-converted:{}", key), format!("{}: the block is used by the intact project's model, yet the project still converts", what));
            }
            Verdict::Pass
        }
        Err(p) => Verdict::from_panic("C02:convert-edited", &p),
    }
}

thread_local! {
    /// names that the built-in LIDER catalogue also defines (a project may lose its own definition of those)
    static CATALOGUE_NAMES: std::collections::HashSet<String> = {
        let mut s = std::collections::HashSet::new();
        if let Ok(db) = ctehexml::load_lider_catalog() {
            s.extend(db.materials.keys().cloned());
            s.extend(db.wallcons.keys().cloned());
            s.extend(db.wincons.keys().cloned());
            s.extend(db.glasses.keys().cloned());
            s.extend(db.frames.keys().cloned());
        }
        s
    };
    static LIVE_EXAMPLES: std::cell::RefCell<Vec<String>> = const { std::cell::RefCell::new(Vec::new()) };
}

fn check_edit(h: &CaseH, c: &EditCase) -> Verdict {
    if c.respell == 2 {
        return check_reference_edit(h, c);
    }
    let (path, text) = match &c.bld {
        Some(b) => ("x.ctehexml".to_string(), gb::print_ctehexml(b, &[])),
        None => (c.file.clone(), read_project(&c.file)),
    };
    let defs = referenced_definitions(&text);
    if defs.is_empty() {
        return Verdict::Pass;
    }
    let (line, name, ty) = defs[(c.def as usize) % defs.len()].clone();
    let edited = if c.respell == 1 { text.replace(&format!("\"{}\"", name), &format!("\"{}  bis\"", name)) } else { apply_def_edit(&text, line, &name, c.delete) };
    let how = if c.respell == 1 { "respelt with two blanks everywhere" } else if c.delete { "removed" } else { "renamed" };
    let what = format!("{} with definition {:?} ({}) {}", if c.bld.is_some() { "generated project" } else { c.file.trim_start_matches("/repo/hulc_tests/tests/") }, name, ty, how);
    h.class(&format!("edit/{}/{}", if c.respell == 1 { "respell" } else if c.delete { "delete" } else { "rename" }, ty));
    h.nontrivial(fp(&(c.file.clone(), line, c.delete, c.respell)));
    // the verdict on a broken project must not depend on what the process converted before: here the intact
    // project is converted first (a session that opens the good file, then the damaged one); a process that has
    // converted nothing must give the same outcome
    let intact = catch(|| convert_any(&path, &text));
    // is the definition live? (an item of that kind and name made it into the intact project's model, i.e. some
    // kept element refers to it by name)
    let live = match &intact {
        Ok(Ok(m0)) => match ty.as_str() {
            "MATERIAL" => m0.cons.materials.iter().any(|x| x.name == name),
            "LAYERS" | "CONSTRUCTION" => m0.cons.wallcons.iter().any(|x| x.name == name),
            "GLASS-TYPE" => m0.cons.glasses.iter().any(|x| x.name == name),
            "NAME-FRAME" => m0.cons.frames.iter().any(|x| x.name == name),
            "GAP" => m0.cons.wincons.iter().any(|x| x.name == name),
            // schedules and conditions are all carried over, used or not: live = some item of the model links to it
            // every weekly schedule of the text is carried over and each of its seven day entries has to resolve: the
            // definition is live when a WEEK-SCHEDULE-PD block of the text names it (at any weekday), judged from
            // the source, not from the model under test
            "DAY-SCHEDULE-PD" => m0.schedules.day.iter().any(|x| x.name == name) && named_in_block_of_type(&text, "WEEK-SCHEDULE-PD", &name),
            "WEEK-SCHEDULE-PD" => m0.schedules.week.iter().filter(|x| x.name == name).any(|w| m0.schedules.year.iter().any(|y| y.values.iter().any(|(id, _)| *id == w.id))),
            "SCHEDULE-PD" => m0.schedules.year.iter().filter(|x| x.name == name).any(|y| {
                m0.loads.iter().any(|l| [l.people_schedule, l.equipment_schedule, l.lighting_schedule].contains(&Some(y.id))) || m0.thermostats.iter().any(|t| [t.temp_max, t.temp_min].contains(&Some(y.id)))
            }),
            "SPACE-CONDITIONS" => m0.loads.iter().filter(|x| x.name == name).any(|l| m0.spaces.iter().any(|sp| sp.loads == Some(l.id))),
            "SYSTEM-CONDITIONS" => m0.thermostats.iter().filter(|x| x.name == name).any(|t| m0.spaces.iter().any(|sp| sp.thermostat == Some(t.id))),
            _ => false,
        },
        _ => false,
    };
    let in_catalogue = CATALOGUE_NAMES.with(|c| c.contains(&name));
    // HULC repeats CONSTRUCTION blocks after every wall that uses them: only a definition that occurs once can be broken
    let definitions = text.lines().filter(|l| {
        let t = l.trim_start();
        t.starts_with(&format!("\"{}\"", name)) && t[name.len() + 2..].trim_start().starts_with('=')
    }).count();
    if c.respell == 0 && live && !in_catalogue && definitions == 1 {
        h.class("live-unique-definition-broken(must fail)");
    }
    let here = catch(|| convert_any(&path, &edited));
    // (thorough tier: one edit in three gets the fresh-process comparison; every edit gets the other oracles)
    let compare_fresh = h.tier() == Tier::Quick || crate::engine::fnv64(format!("{}{}{}", c.file, line, c.respell).as_bytes()) % 3 == 0;
    if let (Ok(r), true) = (&here, compare_fresh) {
        crate::engine::worker_reset("C02.convert");
        match crate::engine::worker_call("C02.convert", &json!({"path": path, "text": edited}), std::time::Duration::from_secs(120)) {
            crate::engine::WorkerOut::Ok(v) => {
                let fresh = v.as_str().unwrap_or("").to_string();
                let mine = outcome_digest(r);
                h.class("fresh-process-compared");
                if fresh != mine {
                    return Verdict::fail(
                        "C02:edit:outcome-depends-on-history",
                        format!("{}: converted after the intact project the outcome is {}, in a process that has converted nothing it is {}", what, mine.split(':').next().unwrap_or(""), fresh.split(':').next().unwrap_or("")),
                    );
                }
            }
            crate::engine::WorkerOut::Panic(p) => return Verdict::from_panic("C02:convert-edited", &p),
            _ => {}
        }
        crate::engine::worker_reset("C02.convert");
    }
    match here {
        Ok(Err(e)) => {
            h.class("outcome/error");
            h.sample(|| json!({"case": what, "error": e.lines().next().unwrap_or("")}));
            Verdict::Pass
        }
        Ok(Ok(m)) => {
            h.class("outcome/still-converted");
            if c.respell == 0 && live && !in_catalogue && definitions == 1 {
                h.class(&format!("live-definition-still-converted/{}", ty));
                return Verdict::fail(
                    format!("C02:edit:broken-live-reference-converted:{}", ty),
                    format!("{}: the intact project's model contains this item and links to it, the definition is the only one of that name and the catalogue has none, yet the project still converts", what),
                );
            }
            if false {
                h.sample(|| json!({"LIVE-STILL-CONVERTED": what}));
                if std::env::var("VERIF_DEBUG").is_ok() && ty != "CONSTRUCTION" {
                    let defs_same = edited.lines().filter(|l| l.trim_start().starts_with(&format!("\"{}\"", name)) && l.contains('=')).count();
                    eprintln!("LIVE-STILL: {} | definitions of that name left in the edited text: {} | occurrences of the quoted name: {}", what, defs_same, edited.matches(&format!("\"{}\"", name)).count());
                }
                LIVE_EXAMPLES.with(|l| {
                    let mut l = l.borrow_mut();
                    if l.len() < 40 {
                        l.push(what.clone());
                    }
                });
            }
            let v = verdict_closed(&m, &what);
            if v.is_fail() {
                return v;
            }
            // the references that pointed to the renamed/removed definition must not have been dropped silently
            if c.respell == 0 && (ty == "SPACE-CONDITIONS" || ty == "SYSTEM-CONDITIONS") {
                // spaces that name it in the source
                let key = if ty == "SPACE-CONDITIONS" { "SPACE-CONDITIONS" } else { "SYSTEM-CONDITIONS" };
                let mut spaces = vec![];
                let mut cur: Option<String> = None;
                for l in edited.lines() {
                    let t = l.trim();
                    if t.starts_with('"') && t.ends_with("= SPACE") {
                        cur = t[1..].find('"').map(|q| t[1..1 + q].to_string());
                    } else if t == ".." {
                        cur = None;
                    } else if let Some(s) = &cur {
                        if t.starts_with(key) && t.contains(&format!("\"{}\"", name)) {
                            spaces.push(s.clone());
                        }
                    }
                }
                for sname in spaces {
                    if let Some(ms) = m.spaces.iter().find(|x| x.name == sname) {
                        let link = if ty == "SPACE-CONDITIONS" { ms.loads } else { ms.thermostat };
                        if link.is_none() {
                            let sig = format!("C02:edit:link-dropped:{}", if ty == "SPACE-CONDITIONS" { "space.loads" } else { "space.thermostat" });
                            if h.known(&sig) {
                                continue;
                            }
                            return Verdict::fail(sig, format!("{}: space {:?} still names it, the conversion succeeds and the model simply has no link (missing link instead of an error)", what, sname));
                        }
                    }
                }
            }
            Verdict::Pass
        }
        Err(p) => Verdict::from_panic("C02:convert-edited", &p),
    }
}

/// true when a block of the given type in the BDL text contains the quoted name among its attribute values
fn named_in_block_of_type(text: &str, bty: &str, name: &str) -> bool {
    let quoted = format!("\"{}\"", name);
    let mut inside = false;
    for l in text.lines() {
        let t = l.trim();
        if !inside {
            if let Some((_, v)) = t.split_once('=') {
                if t.starts_with('"') && v.trim() == bty {
                    inside = true;
                }
            }
        } else {
            if t == ".." {
                inside = false;
                continue;
            }
            let t_end = t.ends_with("..");
            if t.contains(&quoted) {
                return true;
            }
            if t_end {
                inside = false;
            }
        }
    }
    false
}

pub fn run(args: &Args) -> ! {
    let ctx = Ctx::new("C02", "exploration", args);
    ctx.rule("real: all shipped .ctehexml (parse_with_catalog) and legacy .cte (Data::new + catalogue) projects; generated: typed buildings printed to .ctehexml (half with a systems section transplanted from a shipped project); edits: each of those with ONE definition that is referenced elsewhere renamed or removed, or consistently respelt (definition and every reference) with two consecutive blanks in the name, or with ONE reference (schedule references of a SPACE-CONDITIONS block, glass / frame reference of a GAP block, conditions references of a SPACE) changed to an undefined name (material, layers, construction, glass, frame, gap, polygon, floor, space, wall, day/week/year schedule, space/system conditions; quick: seeded slice, thorough: every referenced definition of every real project). Oracle: closure computed by the harness (unique ids per collection, every reference resolves, no nil id, bemodel::check empty), for generated projects every link the source declares is present in the model, for edits: Err, or Ok and closed and (broken references) no reference to the edited definition silently dropped; a renamed or removed definition that is live (the intact project's model contains the item and something in that model links to it), unique in the text and absent from the built-in catalogue must give Err; and the outcome (error, or the model's JSON) of the edited project converted right after its intact original equals the outcome in a fresh process that has converted nothing. Non-trivial: project with windows and schedules; edit of a definition that is actually referenced.");
    ctx.assume("names are unique per kind inside one project (HULC guarantees it)");
    ctx.replay_regressions(replay_one);
    let files = real_files();
    ctx.run_enum("real", &files, true, check_real);
    ctx.run_prop("generated", ctx.tier().pick(400, 20_000), gb::bld, check_bld);
    // edits of real projects
    let mut cases = vec![];
    for f in &files {
        let text = read_project(f);
        let n = referenced_definitions(&text).len();
        if n == 0 {
            continue;
        }
        match ctx.tier() {
            Tier::Thorough => {
                for d in 0..n {
                    for delete in [false, true] {
                        cases.push(EditCase { file: f.clone(), bld: None, def: d as u32, delete, respell: 0 });
                    }
                    // (the two consistent / single-reference edit kinds for every third definition)
                    if d % 3 == 0 {
                        cases.push(EditCase { file: f.clone(), bld: None, def: d as u32, delete: false, respell: 1 });
                        cases.push(EditCase { file: f.clone(), bld: None, def: d as u32, delete: false, respell: 2 });
                    }
                }
            }
            Tier::Quick => {
                for k in 0..22u64 {
                    let d = mix(ctx.seed(), f, k) % n as u64;
                    cases.push(EditCase { file: f.clone(), bld: None, def: if k >= 18 { mix(ctx.seed(), f, k) as u32 } else { d as u32 }, delete: k < 12 && k % 2 == 1, respell: if k >= 18 { 2 } else { u8::from(k >= 12) } });
                }
            }
        }
    }
    ctx.run_enum("edited_real", &cases, ctx.tier() == Tier::Thorough, check_edit);
    ctx.run_prop(
        "edited_generated",
        ctx.tier().pick(600, 8_000),
        || (gb::bld(), any::<u32>(), any::<bool>(), prop_oneof![4 => Just(0u8), 2 => Just(1u8), 3 => Just(2u8)]).prop_map(|(b, def, delete, respell)| EditCase { file: String::new(), bld: Some(Box::new(b)), def, delete: delete && respell == 0, respell }),
        check_edit,
    );
    for c in ["real/converted", "edited_real/outcome/error", "edited_generated/outcome/error", "edited_generated/edit/respell/MATERIAL", "edited_real/edit/respell/MATERIAL", "edited_generated/live-unique-definition-broken(must fail)", "edited_real/live-unique-definition-broken(must fail)", "edited_generated/edit/reference/PEOPLE-SCHEDULE", "edited_real/edit/reference/PEOPLE-SCHEDULE", "generated/with-systems-section", "generated/adjacent-space-without-elements-of-its-own"] {
        ctx.require_class(c);
    }
    ctx.finish()
}

pub fn replay_one(ctx: &Ctx, doc: &ReplayDoc) {
    use crate::engine::replay_case;
    match doc.sub.as_str() {
        "real" => replay_case::<String>(ctx, &doc.sub, &doc.case, check_real),
        "generated" => replay_case::<Bld>(ctx, &doc.sub, &doc.case, check_bld),
        "edited_real" | "edited_generated" => replay_case::<EditCase>(ctx, &doc.sub, &doc.case, check_edit),
        s => ctx.infra_error(format!("unknown sub {}", s)),
    }
}
