//! C06 — opaque U-values follow EN ISO 6946 / 13370 / 13789.

use std::collections::BTreeMap;

use proptest::prelude::*;
use serde_json::json;

use bemodel::{BoundaryType, Model, Uuid};

use crate::engine::{fp, Args, CaseH, Ctx, ReplayDoc, Verdict};
use crate::gen::model::{self, Params, Plan};
use crate::oracle::envelope::{tilt_class, TiltC};
use crate::oracle::uvalue::{self as uo, Expect};
use crate::props::envelope_props::{indicators, shipped_models};
use crate::{vensure, vfail};

fn physical_plan() -> BoxedStrategy<Plan> {
    prop_oneof![
        4 => model::plan(Params { open: false, shades: 0, uses: false, unpositioned: false, ..Params::default() }),
        1 => model::plan(Params { open: true, shades: 0, uses: false, unpositioned: false, ..Params::default() }),
    ]
    .prop_map(|mut p| {
        // more buried spaces and poorly insulated stacks, where the constants matter
        for (i, s) in p.spaces.iter_mut().enumerate() {
            if (p.salt >> i) & 3 == 0 && s.z >= 0.0 {
                s.z = -(((p.salt >> (i + 3)) % 50) as f32) / 10.0;
            }
        }
        p
    })
    .boxed()
}

pub fn check_model(h: &CaseH, m: &Model) -> Verdict {
    let ind = match indicators(m) {
        Ok(i) => i,
        Err(v) => return v,
    };
    let hn: BTreeMap<Uuid, f64> = ind.props.spaces.iter().map(|(k, v)| (*k, v.height_net as f64)).collect();
    let hfun = |id: Uuid| hn.get(&id).copied().unwrap_or(0.0);
    let ctx = uo::Ctx { m, height_net: &hfun };
    let mut interesting = false;
    for w in &m.walls {
        let got = ind.props.walls.get(&w.id).and_then(|p| p.u_value);
        let direct = w.u_value(m);
        vensure!(got == direct, "C06:props-vs-method", "props.walls u_value {:?} != Wall::u_value {:?} for {}", got, direct, w.name);
        let t = tilt_class(w.geometry.tilt as f64);
        let tn = match t {
            TiltC::Top => "top",
            TiltC::Side => "side",
            TiltC::Bottom => "bottom",
        };
        match uo::expect_u(&ctx, w) {
            Expect::DontCare(why) => {
                h.class(&format!("dont-care/{}", why));
            }
            Expect::None => {
                h.class(&format!("none/{:?}", w.bounds));
                vensure!(got.is_none(), "C06:u-without-construction", "wall {} ({:?}, {}) has U = {:?} although its construction or a material is missing", w.name, w.bounds, tn, got);
            }
            Expect::Value(iv, branch) => {
                h.class(&format!("{}/{}", branch, tn));
                h.evals(1);
                let u = match got {
                    Some(u) => u as f64,
                    None => vfail!("C06:no-u-for-resolved-element", "wall {} ({:?}, {}, branch {}) has no U although construction and spaces resolve; expected [{:.4}, {:.4}]", w.name, w.bounds, tn, branch, iv.lo, iv.hi),
                };
                if !iv.contains(u) {
                    let r = uo::resistance(m, w.cons).unwrap_or(f64::NAN);
                    let sp = m.spaces.iter().find(|s| s.id == w.space);
                    vfail!(
                        format!("C06:{}:{}", branch, tn),
                        "wall {} ({:?}, tilt {} = {}): U = {} but the standard gives [{:.4}, {:.4}] (R = {:.4} m2K/W, space z = {:?}, kind = {:?}, next_to kind = {:?})",
                        w.name,
                        w.bounds,
                        w.geometry.tilt,
                        tn,
                        u,
                        iv.lo,
                        iv.hi,
                        r,
                        sp.map(|s| s.z),
                        sp.map(|s| s.kind),
                        w.next_to.and_then(|n| m.spaces.iter().find(|s| s.id == n)).map(|s| s.kind)
                    );
                }
                let r = uo::resistance(m, w.cons).unwrap_or(9.0);
                if r <= 1.0 || w.bounds == BoundaryType::GROUND || w.bounds == BoundaryType::INTERIOR {
                    interesting = true;
                }
            }
        }
    }
    if interesting {
        h.nontrivial(fp(&(m.walls.len(), m.spaces.len(), format!("{:?}", ind.K_data.K))));
    }
    Verdict::Pass
}

fn check_plan(h: &CaseH, pl: &Plan) -> Verdict {
    let m = model::build(pl);
    let v = check_model(h, &m);
    h.sample(|| json!({"spaces": pl.spaces.iter().map(|s| json!({"kind": s.kind, "z": s.z, "h": s.height, "n_v": s.n_v, "floors": s.floors.iter().map(|f| f.bounds).collect::<Vec<_>>(), "sides": s.sides.iter().map(|f| f.bounds).collect::<Vec<_>>()})).collect::<Vec<_>>(), "materials": pl.materials.len(), "d_ins": pl.meta.d_ins, "rn_ins": pl.meta.rn_ins}));
    v
}

/// metamorphic: thicken a layer / add a layer in a construction that no ceiling uses => no U increases
fn check_monotone(h: &CaseH, c: &(Plan, u16, bool)) -> Verdict {
    let (pl, pickc, add) = c;
    let m1 = model::build(pl);
    if pl.wallcons.is_empty() || pl.materials.is_empty() {
        return Verdict::Pass;
    }
    let ci = model::pick(*pickc, pl.wallcons.len());
    let cid = m1.cons.wallcons[ci].id;
    // net heights must not change: the construction is not used by any ceiling candidate
    let used_by_ceiling = m1.walls.iter().any(|w| w.cons == cid && tilt_class(w.geometry.tilt as f64) != TiltC::Side);
    if used_by_ceiling {
        h.class("skipped/used-by-floor-or-ceiling");
        return Verdict::Pass;
    }
    let mut p2 = pl.clone();
    if *add || p2.wallcons[ci].layers.is_empty() {
        p2.wallcons[ci].layers.push((0, 0.05));
        h.class("layer-added");
    } else {
        p2.wallcons[ci].layers[0].1 *= 2.0;
        h.class("layer-thickened");
    }
    let m2 = model::build(&p2);
    let (i1, i2) = match (indicators(&m1), indicators(&m2)) {
        (Ok(a), Ok(b)) => (a, b),
        (Err(v), _) | (_, Err(v)) => return v,
    };
    let mut any = false;
    for w in &m1.walls {
        let air = matches!(w.bounds, BoundaryType::EXTERIOR | BoundaryType::ADIABATIC);
        let partition = w.bounds == BoundaryType::INTERIOR && {
            let a = m1.spaces.iter().find(|s| s.id == w.space).map(|s| s.kind == bemodel::SpaceType::CONDITIONED);
            let b = w.next_to.and_then(|n| m1.spaces.iter().find(|s| s.id == n)).map(|s| s.kind == bemodel::SpaceType::CONDITIONED);
            matches!((a, b), (Some(x), Some(y)) if x != y)
        };
        if !(air || partition) {
            continue;
        }
        let (u1, u2) = (i1.props.walls.get(&w.id).and_then(|p| p.u_value), i2.props.walls.get(&w.id).and_then(|p| p.u_value));
        if let (Some(u1), Some(u2)) = (u1, u2) {
            vensure!(u2 <= u1 + 1e-6, "C06:monotone", "wall {} ({:?}): U goes from {} to {} after adding insulation to construction #{}", w.name, w.bounds, u1, u2, ci);
            if w.cons == cid && u2 < u1 {
                any = true;
            }
        }
    }
    if any {
        h.nontrivial(fp(&(pl.salt, ci, *add)));
    }
    Verdict::Pass
}

pub fn run(args: &Args) -> ! {
    let ctx = Ctx::new("C06", "exploration", args);
    ctx.rule("generated prism models (1-5 spaces, all four boundary kinds x floor/wall/roof incl. odd tilts inside each class, conditioned/unconditioned/uninhabited neighbours, none and dangling, layer stacks of 0-5 layers mixing conductive and resistance-only materials, buried depths, perimeter insulation, ventilation per space or building-wide, open plans with missing constructions/materials) and every wall of the shipped models; oracle: f64 formulas of EN ISO 6946 (air contact / adiabatic), EN ISO 13370 (slab on ground with B' from the exposed edges, d_t, perimeter insulation; basement wall with burial depth) and EN ISO 13789 (partition cond/uncond with sum A_e U_e + 0.33 n V), evaluated as intervals over the roundings of intermediate quantities; cases the statement leaves undefined are counted as dont-care classes. Metamorphic: thickening or adding a layer never increases any air-contact or partition U. Non-trivial: element with R <= 1 m2K/W, or any ground / partition element.");
    ctx.assume("per-space net heights are inputs (C11); window U inside sum A_e U_e recomputed from its definition (C07)");
    ctx.replay_regressions(replay_one);
    let real = shipped_models();
    ctx.run_enum("shipped", &real.iter().map(|(n, _)| n.clone()).collect::<Vec<_>>(), true, |h, name| {
        let m = &real.iter().find(|(n, _)| n == name).unwrap().1;
        h.nontrivial(fp(name));
        check_model(h, m)
    });
    ctx.run_prop("generated", ctx.tier().pick(40_000, 600_000), physical_plan, check_plan);
    ctx.run_prop(
        "monotone",
        ctx.tier().pick(12_000, 150_000),
        || (model::plan(Params { open: false, shades: 0, uses: false, unpositioned: false, ..Params::default() }), any::<u16>(), any::<bool>()),
        check_monotone,
    );
    for c in [
        "generated/air/top", "generated/air/side", "generated/air/bottom",
        "generated/ground/slab/bottom", "generated/ground/basement-wall/side", "generated/ground/wall-not-buried/side", "generated/ground/top/top",
        "generated/partition/cond-uncond/top", "generated/partition/cond-uncond/side", "generated/partition/cond-uncond/bottom",
        "generated/none/EXTERIOR", "monotone/layer-added", "monotone/layer-thickened",
    ] {
        ctx.require_class(c);
    }
    ctx.finish()
}

pub fn replay_one(ctx: &Ctx, doc: &ReplayDoc) {
    use crate::engine::replay_case;
    match doc.sub.as_str() {
        "generated" => replay_case::<Plan>(ctx, &doc.sub, &doc.case, check_plan),
        "monotone" => replay_case::<(Plan, u16, bool)>(ctx, &doc.sub, &doc.case, check_monotone),
        "shipped" => {
            let name: String = serde_json::from_value(doc.case.clone()).unwrap_or_default();
            if let Some((_, m)) = shipped_models().into_iter().find(|(n, _)| *n == name) {
                replay_case::<String>(ctx, "shipped", &doc.case, |h, _| check_model(h, &m));
            }
        }
        s => ctx.infra_error(format!("unknown sub {}", s)),
    }
}
