//! C19 — damaged project files are rejected with an error, never with a crash or hang.
//! Fault enumeration: every line of every shipped file x every edit kind (thorough), a seeded
//! slice of the lines (quick). Each case runs in a worker process under a watchdog.

use std::cell::RefCell;
use std::collections::HashMap;
use std::path::{Path, PathBuf};
use std::time::Duration;

use serde::{Deserialize, Serialize};
use serde_json::{json, Value};

use bemodel::Model;
use hulc::bdl::Data;
use hulc::ctehexml::{self, CtehexmlData};

use crate::engine::{fnv64, mix, worker_call, Args, CaseH, Ctx, ReplayDoc, Tier, Verdict, WorkerOut};
use crate::util::{files_named, files_with_ext, read_latin1};

pub const EDITS: [&str; 16] = ["delete-line", "duplicate-line", "truncate-after", "truncate-inside-a", "truncate-inside-b", "number->abc", "number->1e39", "number->-1", "number->NaN", "number->0", "number->99", "number->400000000", "rename-quoted", "rename-quoted-short", "xml-text->x", "delete-block"];

#[derive(Clone, Debug, Serialize, Deserialize)]
pub struct FaultCase {
    pub file: String,
    /// 0-based line index
    pub line: usize,
    pub edit: String,
}

#[derive(Clone, Copy, Debug, PartialEq)]
pub enum Kind {
    Ctehexml,
    Cte,
    Kyg,
    Tbl,
}

pub fn kind_of(path: &str) -> Kind {
    let l = path.to_lowercase();
    if l.ends_with(".ctehexml") {
        Kind::Ctehexml
    } else if l.ends_with(".cte") {
        Kind::Cte
    } else if l.ends_with(".tbl") {
        Kind::Tbl
    } else {
        Kind::Kyg
    }
}

pub fn corpus() -> Vec<PathBuf> {
    let root = Path::new("/repo/hulc_tests/tests");
    let mut v = files_with_ext(root, &["ctehexml", "cte", "tbl"]);
    v.extend(files_named(root, "KyGananciasSolares.txt"));
    v.sort();
    v
}

/// Generated projects are virtual files: `/c19gen/s<seed>-<index>.<ext>`; their text is a pure function of the name.
pub const GEN_PREFIX: &str = "/c19gen/";
pub const GEN_POOL: usize = 24;

pub fn gen_name(seed: u64, i: usize) -> String {
    format!("{}s{}-{:02}.{}", GEN_PREFIX, seed, i, if i % 2 == 0 { "ctehexml" } else { "cte" })
}

/// Text of a generated project: a generated building printed as .ctehexml (even index; two in three with a shipped
/// systems section) or as legacy BDL (odd index); for two in three of them every quoted name gets accented letters
/// (consistently, so that references still resolve), as Spanish projects have them.
pub fn gen_text(path: &str) -> Option<String> {
    use crate::gen::building;
    let name = path.strip_prefix(GEN_PREFIX)?.strip_prefix('s')?;
    let (seed, rest) = name.split_once('-')?;
    let (idx, ext) = rest.split_once('.')?;
    let seed: u64 = seed.parse().ok()?;
    let i: usize = idx.parse().ok()?;
    let blds = crate::fuzz::sample_values(&building::bld(), GEN_POOL, seed, "C19/gen-faults");
    let b = blds.get(i)?;
    let text = if ext == "ctehexml" {
        let systems = building::shipped_systems_sections();
        let sys = if systems.is_empty() || i % 3 == 0 { vec![] } else { vec![systems[i % systems.len()].clone()] };
        building::print_ctehexml(b, &sys)
    } else {
        building::print_bdl_with_preamble(b)
    };
    let map: &[(char, char)] = match (i / 2) % 3 {
        0 => &[],
        1 => &[('a', 'á'), ('o', 'ó'), ('i', 'í')],
        _ => &[('e', 'é'), ('n', 'ñ'), ('u', 'ü')],
    };
    if map.is_empty() {
        return Some(text);
    }
    let mut out = String::with_capacity(text.len() + 64);
    for (k, line) in text.split('\n').enumerate() {
        if k > 0 {
            out.push('\n');
        }
        if line.trim_start().starts_with('<') {
            out.push_str(line);
            continue;
        }
        let mut inside = false;
        for ch in line.chars() {
            if ch == '"' {
                inside = !inside;
            }
            out.push(if inside { map.iter().find(|m| m.0 == ch).map_or(ch, |m| m.1) } else { ch });
        }
    }
    Some(out)
}

pub fn read_text(path: &str) -> String {
    if path.starts_with(GEN_PREFIX) {
        return gen_text(path).unwrap_or_default();
    }
    match kind_of(path) {
        Kind::Ctehexml => std::fs::read_to_string(path).unwrap_or_default(),
        _ => read_latin1(Path::new(path)),
    }
}

fn first_number_span(line: &str) -> Option<(usize, usize)> {
    // a number token: optional sign, digits, optional fraction/exponent, not part of an identifier
    let b = line.as_bytes();
    let mut i = 0;
    while i < b.len() {
        let c = b[i];
        let prev_ok = i == 0 || !(b[i - 1].is_ascii_alphanumeric() || b[i - 1] == b'_' || b[i - 1] == b'"' && false);
        if (c.is_ascii_digit() || ((c == b'-' || c == b'.') && i + 1 < b.len() && b[i + 1].is_ascii_digit())) && prev_ok {
            let start = i;
            let mut j = i + 1;
            while j < b.len() && (b[j].is_ascii_digit() || b[j] == b'.' || b[j] == b'e' || b[j] == b'E' || ((b[j] == b'-' || b[j] == b'+') && (b[j - 1] == b'e' || b[j - 1] == b'E'))) {
                j += 1;
            }
            // reject when followed by a letter (identifier like 3D_x)
            if j < b.len() && (b[j].is_ascii_alphabetic() || b[j] == b'_') {
                i = j;
                continue;
            }
            return Some((start, j));
        }
        i += 1;
    }
    None
}

fn quoted_span(line: &str) -> Option<(usize, usize)> {
    let a = line.find('"')?;
    let b = line[a + 1..].find('"')? + a + 1;
    if b > a + 1 {
        Some((a + 1, b))
    } else {
        None
    }
}

/// Applies the edit; None when the edit does not apply to that line (e.g. no number on it)
pub fn apply_edit(lines: &[&str], eol: &str, c: &FaultCase, kind: Kind) -> Option<String> {
    let i = c.line;
    if i >= lines.len() {
        return None;
    }
    let mut out: Vec<String> = Vec::with_capacity(lines.len() + 1);
    match c.edit.as_str() {
        "delete-line" => {
            for (k, l) in lines.iter().enumerate() {
                if k != i {
                    out.push(l.to_string());
                }
            }
        }
        "duplicate-line" => {
            for (k, l) in lines.iter().enumerate() {
                out.push(l.to_string());
                if k == i {
                    out.push(l.to_string());
                }
            }
        }
        "truncate-after" => {
            out.extend(lines[..=i].iter().map(|l| l.to_string()));
        }
        "truncate-inside-a" | "truncate-inside-b" => {
            // the file ends in the middle of this line (a transfer cut short): two seeded cut points per line
            let l = lines[i];
            let n = l.chars().count();
            if n < 2 {
                return None;
            }
            let cut = 1 + (fnv64(format!("{}{}{}", c.file, i, c.edit).as_bytes()) % (n as u64 - 1)) as usize;
            out.extend(lines[..i].iter().map(|l| l.to_string()));
            out.push(l.chars().take(cut).collect());
        }
        "number->abc" | "number->1e39" | "number->-1" | "number->NaN" | "number->0" | "number->99" | "number->400000000" => {
            let (a, b) = first_number_span(lines[i])?;
            let rep = &c.edit["number->".len()..];
            for (k, l) in lines.iter().enumerate() {
                if k == i {
                    out.push(format!("{}{}{}", &l[..a], rep, &l[b..]));
                } else {
                    out.push(l.to_string());
                }
            }
        }
        "rename-quoted" => {
            let (a, b) = quoted_span(lines[i])?;
            for (k, l) in lines.iter().enumerate() {
                if k == i {
                    out.push(format!("{}{}_X{}", &l[..a], &l[a..b], &l[b..]));
                } else {
                    out.push(l.to_string());
                }
            }
        }
        "rename-quoted-short" => {
            let (a, b) = quoted_span(lines[i])?;
            for (k, l) in lines.iter().enumerate() {
                if k == i {
                    out.push(format!("{}x{}", &l[..a], &l[b..]));
                } else {
                    out.push(l.to_string());
                }
            }
        }
        "xml-text->x" => {
            // <tag>text</tag> on one line: the text (a name, a reference to a curve, a number) becomes "x"
            let l = lines[i];
            let a = l.find('>')? + 1;
            let b = a + l[a..].find("</")?;
            if b <= a || !l.trim_start().starts_with('<') {
                return None;
            }
            for (k, l) in lines.iter().enumerate() {
                if k == i {
                    out.push(format!("{}x{}", &l[..a], &l[b..]));
                } else {
                    out.push(l.to_string());
                }
            }
        }
        "delete-block" => {
            // the BDL block containing the line: from the line after the previous ".." to the next ".."
            if kind == Kind::Kyg || kind == Kind::Tbl {
                return None;
            }
            let is_end = |l: &str| l.trim() == ".." || l.trim_end().ends_with("..");
            let mut start = i;
            while start > 0 && !is_end(lines[start - 1]) {
                start -= 1;
            }
            let mut end = i;
            while end < lines.len() && !is_end(lines[end]) {
                end += 1;
            }
            if end >= lines.len() || end - start > 400 {
                return None;
            }
            for (k, l) in lines.iter().enumerate() {
                if k < start || k > end {
                    out.push(l.to_string());
                }
            }
        }
        _ => return None,
    }
    Some(out.join(eol))
}

thread_local! {
    static TEXTS: RefCell<HashMap<String, String>> = RefCell::new(HashMap::new());
    static CATALOG: RefCell<Option<hulc::bdl::DB>> = const { RefCell::new(None) };
}

fn catalog() -> hulc::bdl::DB {
    CATALOG.with(|c| {
        let mut c = c.borrow_mut();
        if c.is_none() {
            *c = Some(ctehexml::load_lider_catalog().expect("catalogue loads"));
        }
        c.as_ref().unwrap().clone()
    })
}

fn with_catalog(mut d: CtehexmlData) -> CtehexmlData {
    let cat = catalog();
    let db = &mut d.bdldata.db;
    db.materials.extend(cat.materials);
    db.wallcons.extend(cat.wallcons);
    db.wincons.extend(cat.wincons);
    db.glasses.extend(cat.glasses);
    db.frames.extend(cat.frames);
    d
}

/// the pipeline of each file kind; Ok(description) or Err(message)
/// what the export tool does after the conversion: indicators of the converted model (U values, shading by ray
/// casting) to fill the `extra` list; part of collect_hulc_data
fn tool_stage(m: &mut Model, enabled: bool) -> Result<&'static str, String> {
    if !enabled {
        return Ok("");
    }
    hulc2model::fix_ecdata_from_extra(m, &None::<&str>, &None).map_err(|e| format!("extra: {}", e))?;
    Ok(" +tool-stage")
}

pub fn run_pipeline(kind: Kind, text: &str, through_real_entry: bool) -> Result<String, String> {
    run_pipeline_with(kind, text, through_real_entry, false)
}

pub fn run_pipeline_with(kind: Kind, text: &str, through_real_entry: bool, with_tool_stage: bool) -> Result<String, String> {
    match kind {
        Kind::Ctehexml => {
            let data = if through_real_entry {
                ctehexml::parse_with_catalog(text).map_err(|e| format!("parse: {}", e))?
            } else {
                with_catalog(ctehexml::parse(text).map_err(|e| format!("parse: {}", e))?)
            };
            let mut m = Model::try_from(&data).map_err(|e| format!("convert: {}", e))?;
            let ts = tool_stage(&mut m, with_tool_stage)?;
            Ok(format!("model walls={} windows={}{}", m.walls.len(), m.windows.len(), ts))
        }
        Kind::Cte => {
            let bdl = Data::new(text).map_err(|e| format!("parse: {}", e))?;
            let mut d = CtehexmlData::default();
            d.bdldata = bdl;
            let d = with_catalog(d);
            let m = Model::try_from(&d).map_err(|e| format!("convert: {}", e))?;
            Ok(format!("model walls={} windows={}", m.walls.len(), m.windows.len()))
        }
        Kind::Kyg => {
            let k = hulc::kyg::parse(text).map_err(|e| format!("parse: {}", e))?;
            Ok(format!("kyg walls={} windows={}", k.walls.len(), k.windows.len()))
        }
        Kind::Tbl => {
            let dir = crate::engine::target_dir().join("tmp");
            let dir = dir.as_path();
            let _ = std::fs::create_dir_all(dir);
            let p = dir.join(format!("c19-{}-{:x}.tbl", std::process::id(), fnv64(text.as_bytes())));
            // the parser reads Latin-1: write one byte per char
            let bytes: Vec<u8> = text.chars().map(|c| if (c as u32) < 256 { c as u8 } else { b'?' }).collect();
            std::fs::write(&p, bytes).map_err(|e| e.to_string())?;
            let r = hulc::tbl::parse(&p);
            let _ = std::fs::remove_file(&p);
            let t = r.map_err(|e| format!("parse: {}", e))?;
            Ok(format!("tbl elements={} spaces={}", t.elements.len(), t.spaces.len()))
        }
    }
}

/// Runs inside the worker process. Returns {"applied": bool, "result": "ok..."|"err..."}
pub fn worker(sub: &str, v: Value) -> Value {
    if sub == "C19.extra" {
        return worker_extra(v);
    }
    let c: FaultCase = serde_json::from_value(v).expect("case decodes");
    let kind = kind_of(&c.file);
    let text = TEXTS.with(|t| t.borrow_mut().entry(c.file.clone()).or_insert_with(|| read_text(&c.file)).clone());
    let eol = if text.contains("\r\n") { "\r\n" } else { "\n" };
    let lines: Vec<&str> = text.split(eol).collect();
    let damaged = if c.edit == "intact" || c.edit == "saved-input" { Some(text.clone()) } else { apply_edit(&lines, eol, &c, kind) };
    let damaged = match damaged {
        Some(d) => d,
        None => return json!({"applied": false}),
    };
    // 1 in 64 cases goes through the real parse_with_catalog entry point (cross-check of the hoisted catalogue)
    let real = fnv64(format!("{}{}{}", c.file, c.line, c.edit).as_bytes()) % 64 == 0;
    let trivial = {
        let l = lines.get(c.line).map(|s| s.trim()).unwrap_or("");
        l.is_empty() || l.starts_with('$')
    };
    // the export tool goes on to compute the indicators of what it converted (collect_hulc_data): that stage runs
    // for every edit that puts an out-of-range or non-numeric value somewhere and for one in four of the others
    let tool = kind == Kind::Ctehexml && (c.edit.starts_with("number->") || c.edit == "intact" || c.edit == "saved-input" || fnv64(format!("t{}{}{}", c.file, c.line, c.edit).as_bytes()) % 4 == 0);
    match run_pipeline_with(kind, &damaged, real, tool) {
        Ok(s) => json!({"applied": true, "result": "ok", "detail": s, "trivial": trivial, "accented": !text.is_ascii()}),
        Err(e) => json!({"applied": true, "result": "err", "detail": e.chars().take(160).collect::<String>(), "trivial": trivial, "accented": !text.is_ascii()}),
    }
}

/// The damaged KyGananciasSolares.txt / NewBDL_O.tbl next to its intact project, through the export tool's
/// library entry (collect_hulc_data with both result files enabled), in the worker process.
fn worker_extra(v: Value) -> Value {
    let c: FaultCase = serde_json::from_value(v).expect("case decodes");
    let kind = kind_of(&c.file);
    let text = TEXTS.with(|t| t.borrow_mut().entry(c.file.clone()).or_insert_with(|| read_text(&c.file)).clone());
    let eol = if text.contains("\r\n") { "\r\n" } else { "\n" };
    let lines: Vec<&str> = text.split(eol).collect();
    let damaged = if c.edit == "intact" { Some(text.clone()) } else { apply_edit(&lines, eol, &c, kind) };
    let damaged = match damaged {
        Some(d) => d,
        None => return json!({"applied": false}),
    };
    let src = Path::new(&c.file).parent().expect("project directory");
    let dir = crate::engine::target_dir().join("tmp").join("c19x").join(format!("p{}", std::process::id()));
    let _ = std::fs::remove_dir_all(&dir);
    std::fs::create_dir_all(&dir).expect("scratch directory");
    let lat = |s: &str| -> Vec<u8> { s.chars().map(|ch| if (ch as u32) < 256 { ch as u8 } else { b'?' }).collect() };
    for e in std::fs::read_dir(src).expect("project directory lists").flatten() {
        let p = e.path();
        let name = p.file_name().unwrap().to_string_lossy().to_string();
        let lower = name.to_lowercase();
        if p.to_string_lossy() == c.file {
            std::fs::write(dir.join(&name), lat(&damaged)).expect("write damaged file");
        } else if lower.ends_with(".ctehexml") || lower.ends_with(".tbl") || lower == "kygananciassolares.txt" {
            std::fs::copy(&p, dir.join(&name)).expect("copy project file");
        }
    }
    let trivial = {
        let l = lines.get(c.line).map(|s| s.trim()).unwrap_or("");
        l.is_empty()
    };
    let r = hulc2model::collect_hulc_data(dir.to_string_lossy(), true, true);
    let _ = std::fs::remove_dir_all(&dir);
    match r {
        Ok(m) => json!({"applied": true, "result": "ok", "detail": format!("model walls={} overrides={}", m.walls.len(), m.overrides.walls.len() + m.overrides.windows.len()), "trivial": trivial}),
        Err(e) => json!({"applied": true, "result": "err", "detail": format!("{}", e).chars().take(160).collect::<String>(), "trivial": trivial}),
    }
}

fn check_extra(h: &CaseH, c: &FaultCase) -> Verdict {
    let kind = kind_of(&c.file);
    let kname = format!("{:?}", kind);
    match worker_call("C19.extra", c, Duration::from_secs(60)) {
        WorkerOut::Ok(v) => {
            if v["applied"] == json!(false) {
                h.class(&format!("{}/edit-not-applicable", kname));
                return Verdict::Pass;
            }
            let r = v["result"].as_str().unwrap_or("");
            h.class(&format!("{}/{}/{}", kname, c.edit, r));
            if c.file.starts_with(GEN_PREFIX) && v["accented"] == json!(true) {
                h.class("accented-names");
            }
            if v["trivial"] != json!(true) {
                h.nontrivial(fnv64(format!("x|{}|{}|{}", c.file, c.line, c.edit).as_bytes()));
            }
            h.sample(|| json!({"case": c, "outcome": v}));
            Verdict::Pass
        }
        WorkerOut::Panic(p) => Verdict::Fail {
            sig: format!("C19:extra:{}", p.signature()),
            what: format!("collect_hulc_data(dir, true, true) with {} line {} edit {}: panic at {}:{} in {}: {}", short(&c.file), c.line + 1, c.edit, p.file, p.line, p.func, p.msg.lines().next().unwrap_or("")),
        },
        WorkerOut::Hang => Verdict::fail(format!("C19:extra:hang:{:?}", kind), format!("{} line {} edit {}: no answer within 60 s", short(&c.file), c.line + 1, c.edit)),
        WorkerOut::Died(s) => Verdict::fail(format!("C19:extra:process-died:{:?}", kind), format!("{} line {} edit {}: worker died ({})", short(&c.file), c.line + 1, c.edit, s)),
    }
}

/// hangs seen so far: every one costs a full watchdog period, so after a few (the violation is recorded by
/// then) the remaining cases of the enumeration are skipped and counted
static HANGS: std::sync::atomic::AtomicUsize = std::sync::atomic::AtomicUsize::new(0);
const MAX_HANGS: usize = 6;

fn check_case(h: &CaseH, c: &FaultCase) -> Verdict {
    let kind = kind_of(&c.file);
    let kname = format!("{:?}", kind);
    if !h.strict && HANGS.load(std::sync::atomic::Ordering::Relaxed) >= MAX_HANGS {
        h.class("skipped-after-repeated-hangs");
        return Verdict::Pass;
    }
    let out = worker_call("C19.fault", c, Duration::from_secs(60));
    if matches!(out, WorkerOut::Hang) {
        HANGS.fetch_add(1, std::sync::atomic::Ordering::Relaxed);
    }
    match out {
        WorkerOut::Ok(v) => {
            if v["applied"] == json!(false) {
                h.class(&format!("{}/edit-not-applicable", kname));
                return Verdict::Pass;
            }
            let r = v["result"].as_str().unwrap_or("");
            h.class(&format!("{}/{}/{}", kname, c.edit, r));
            if c.file.starts_with(GEN_PREFIX) && v["accented"] == json!(true) {
                h.class("accented-names");
            }
            if v["detail"].as_str().map_or(false, |d| d.contains("+tool-stage")) {
                h.class("converted-and-indicators-computed");
            }
            if v["trivial"] != json!(true) {
                h.nontrivial(fnv64(format!("{}|{}|{}", c.file, c.line, c.edit).as_bytes()));
            }
            h.sample(|| json!({"case": c, "outcome": v}));
            Verdict::Pass
        }
        WorkerOut::Panic(p) => Verdict::Fail {
            sig: format!("C19:{}", p.signature()),
            what: format!("{} line {} edit {}: panic at {}:{} in {}: {}", short(&c.file), c.line + 1, c.edit, p.file, p.line, p.func, p.msg.lines().next().unwrap_or("")),
        },
        WorkerOut::Hang => Verdict::fail(format!("C19:hang:{:?}", kind), format!("{} line {} edit {}: no answer within 60 s", short(&c.file), c.line + 1, c.edit)),
        WorkerOut::Died(s) => Verdict::fail(format!("C19:process-died:{:?}", kind), format!("{} line {} edit {}: worker died ({})", short(&c.file), c.line + 1, c.edit, s)),
    }
}

fn short(p: &str) -> &str {
    p.trim_start_matches("/repo/hulc_tests/tests/").rsplit("regressions/C19/").next().unwrap_or("")
}

pub fn run(args: &Args) -> ! {
    let ctx = Ctx::new("C19", "fault_enumeration", args);
    ctx.rule("fault enumeration: for every shipped project file (.ctehexml, legacy .cte, KyGananciasSolares.txt, NewBDL_O.tbl; located by glob at run time) and every line: delete / duplicate / truncate-after / cut inside the line at two seeded positions / first number -> abc, 1e39, -1, NaN, 0, 99, 400000000 / rename the quoted name (suffix _X, or the one-letter name x) / text of an XML element -> x / delete the enclosing block; plus the intact file. generated_faults: the same edits over generated projects (quick: 6 projects, 1/4 of their lines; thorough: 24 projects, every line), printed as .ctehexml or legacy BDL, two in three with accented letters in every name; only projects that convert when intact. thorough = every line; quick = a seeded 1/48 slice of the lines of every file, the first 8 lines of every result file, plus one line of every distinct attribute key, block type and XML tag per file kind (all edit kinds on each chosen line). extra_files: the same edits of every KyGananciasSolares.txt / NewBDL_O.tbl that lies next to a project (thorough: every line, quick: a seeded 1/6 slice), placed with the intact project file in a scratch directory and read through hulc2model::collect_hulc_data(dir, true, true). saved_inputs: crashing inputs of earlier fuzz campaigns kept as plain files under regressions/C19/inputs, replayed in every run. For .ctehexml projects the conversion is followed by the stage the export tool adds (fix_ecdata_from_extra: indicators of the converted model, i.e. U values and shading by ray casting) for every number edit and a quarter of the others. Each damaged text goes through parse (+ LIDER catalogue merge) + Model::try_from (kyg/tbl: parse) in a worker process under a 60 s watchdog: Ok or Err passes, panic / hang / process death is a violation, one per distinct panic signature (file + function + masked message). Non-trivial: the damaged line is neither blank nor a comment.");
    ctx.assume("the LIDER catalogue is decoded once per worker and merged per case exactly as parse_with_catalog does; 1 case in 64 goes through the real parse_with_catalog as a cross-check");
    ctx.replay_regressions(replay_one);
    let files = corpus();
    let mut cases: Vec<FaultCase> = vec![];
    let denom: u64 = match ctx.tier() {
        Tier::Quick => 48,
        Tier::Thorough => 1,
    };
    // (kind, key) -> (hash, file, line)
    let mut strata: std::collections::BTreeMap<(String, String), (u64, String, usize)> = std::collections::BTreeMap::new();
    if denom != 1 {
        for f in &files {
            let path = f.to_string_lossy().to_string();
            let text = read_text(&path);
            let eol = if text.contains("\r\n") { "\r\n" } else { "\n" };
            let kindname = format!("{:?}", kind_of(&path));
            for (i, l) in text.split(eol).enumerate() {
                let key = match l.split_once('=') {
                    Some((k, _)) if !k.trim().starts_with('"') && !k.trim().starts_with('<') => k.trim().to_string(),
                    Some((k, v)) if k.trim().starts_with('"') => format!("=block:{}", v.trim()),
                    // lines of the XML sections: one line per distinct tag
                    _ => match l.trim().strip_prefix('<') {
                        Some(rest) if !rest.starts_with('/') && !rest.starts_with('?') && !rest.starts_with('!') => format!("<{}", rest.split(|ch: char| ch == '>' || ch == ' ' || ch == '/').next().unwrap_or("")),
                        _ => continue,
                    },
                };
                if key.len() > 40 {
                    continue;
                }
                let hsh = mix(ctx.seed(), &format!("{}#{}", path, key), i as u64);
                let e = strata.entry((kindname.clone(), key)).or_insert((hsh, path.clone(), i));
                if hsh < e.0 {
                    *e = (hsh, path.clone(), i);
                }
            }
        }
    }
    for f in &files {
        let path = f.to_string_lossy().to_string();
        let text = read_text(&path);
        let eol = if text.contains("\r\n") { "\r\n" } else { "\n" };
        let n = text.split(eol).count();
        cases.push(FaultCase {
            file: path.clone(),
            line: 0,
            edit: "intact".into(),
        });
        // stratification: besides the random slice, one line (seeded) of every distinct attribute key and
        // block type per file kind over the whole corpus, so that every kind of value is damaged at least once
        let lines: Vec<&str> = text.split(eol).collect();
        let kindname = format!("{:?}", kind_of(&path));
        let strat: std::collections::HashSet<usize> = strata.iter().filter(|(k, v)| k.0 == kindname && v.1 == path).map(|(_, v)| v.2).collect();
        let _ = &lines;
        for i in 0..n {
            // result files: their first lines (format header, element / space counts) are always damaged
            let header = i < 8 && matches!(kind_of(&path), Kind::Kyg | Kind::Tbl);
            let pick = denom == 1 || header || strat.contains(&i) || mix(ctx.seed(), &path, i as u64) % denom == 0;
            if !pick {
                continue;
            }
            for e in EDITS {
                cases.push(FaultCase {
                    file: path.clone(),
                    line: i,
                    edit: e.to_string(),
                });
            }
        }
    }
    ctx.note(format!("{} files, {} cases", files.len(), cases.len()));
    // interleave files so that every worker sees all kinds
    let mut order: Vec<usize> = (0..cases.len()).collect();
    order.sort_by_key(|i| mix(ctx.seed(), "order", *i as u64));
    let cases: Vec<FaultCase> = order.into_iter().map(|i| cases[i].clone()).collect();
    // inputs saved from earlier campaigns (crashing inputs of fuzz runs, kept as plain files): replayed first
    let saved: Vec<FaultCase> = {
        let mut v = files_with_ext(&crate::engine::verif_dir().join("regressions").join("C19").join("inputs"), &["ctehexml", "cte", "tbl", "txt"]);
        v.sort();
        v.into_iter().map(|p| FaultCase { file: p.to_string_lossy().to_string(), line: 0, edit: "saved-input".into() }).collect()
    };
    ctx.run_enum("saved_inputs", &saved, true, check_case);
    ctx.run_enum("faults", &cases, ctx.tier() == Tier::Thorough, check_case);
    // generated projects (virtual files): names with accented letters, every form the generator knows
    let gen_n = if ctx.wants("generated_faults") { ctx.tier().pick(6, GEN_POOL) } else { 0 };
    let gdenom: u64 = ctx.tier().pick(4, 1);
    let mut gcases: Vec<FaultCase> = vec![];
    for i in 0..gen_n {
        let path = gen_name(ctx.seed(), i);
        let text = read_text(&path);
        // only projects that convert when intact are in the property's domain
        if run_pipeline(kind_of(&path), &text, false).is_err() {
            ctx.note(format!("generated project {} does not convert when intact: outside the property's domain, skipped", path));
            continue;
        }
        gcases.push(FaultCase { file: path.clone(), line: 0, edit: "intact".into() });
        for l in 0..text.split('\n').count() {
            if gdenom != 1 && mix(ctx.seed(), &path, l as u64) % gdenom != 0 {
                continue;
            }
            for e in EDITS {
                gcases.push(FaultCase { file: path.clone(), line: l, edit: e.to_string() });
            }
        }
    }
    let mut order: Vec<usize> = (0..gcases.len()).collect();
    order.sort_by_key(|i| mix(ctx.seed(), "gorder", *i as u64));
    let gcases: Vec<FaultCase> = order.into_iter().map(|i| gcases[i].clone()).collect();
    ctx.note(format!("{} generated-project cases", gcases.len()));
    ctx.run_enum("generated_faults", &gcases, false, check_case);
    for k in ["Ctehexml", "Cte"] {
        ctx.require_class(&format!("generated_faults/{}/delete-line/err", k));
        ctx.require_class(&format!("generated_faults/{}/intact/ok", k));
    }
    ctx.require_class("generated_faults/accented-names");
    let skipped = ctx.class_total("faults/skipped-after-repeated-hangs");
    if skipped > 0 {
        ctx.note(format!("{} hangs were observed (each is a violation and costs a 60 s watchdog period); the remaining {} cases of the enumeration were skipped", MAX_HANGS, skipped));
        ctx.budget_exhausted();
    }
    // the result files next to their project, through the export tool's library entry
    let mut xcases: Vec<FaultCase> = vec![];
    let xdenom: u64 = ctx.tier().pick(6, 1);
    for f in &files {
        let path = f.to_string_lossy().to_string();
        let kind = kind_of(&path);
        if !(kind == Kind::Kyg || kind == Kind::Tbl) {
            continue;
        }
        // only next to a project file
        let has_project = f.parent().map_or(false, |d| !files_with_ext(d, &["ctehexml"]).is_empty());
        if !has_project {
            continue;
        }
        xcases.push(FaultCase { file: path.clone(), line: 0, edit: "intact".into() });
        let text = read_text(&path);
        let eol = if text.contains("\r\n") { "\r\n" } else { "\n" };
        for i in 0..text.split(eol).count() {
            if xdenom != 1 && i >= 8 && mix(ctx.seed(), &format!("x{}", path), i as u64) % xdenom != 0 {
                continue;
            }
            for e in EDITS {
                xcases.push(FaultCase { file: path.clone(), line: i, edit: e.to_string() });
            }
        }
    }
    let mut order: Vec<usize> = (0..xcases.len()).collect();
    order.sort_by_key(|i| mix(ctx.seed(), "xorder", *i as u64));
    let xcases: Vec<FaultCase> = order.into_iter().map(|i| xcases[i].clone()).collect();
    ctx.note(format!("{} result-file cases", xcases.len()));
    ctx.run_enum("extra_files", &xcases, ctx.tier() == Tier::Thorough, check_extra);
    for k in ["Kyg", "Tbl"] {
        ctx.require_class(&format!("extra_files/{}/intact/ok", k));
    }
    if ctx.tier() == Tier::Thorough {
        fuzz_campaigns(&ctx, &files);
    }
    for k in ["Ctehexml", "Cte"] {
        ctx.require_class(&format!("faults/{}/delete-line/err", k));
    }
    for k in ["Ctehexml", "Cte", "Kyg", "Tbl"] {
        ctx.require_class(&format!("faults/{}/intact/ok", k));
    }
    ctx.require_class("faults/converted-and-indicators-computed");
    ctx.finish()
}

/// thorough only: coverage-guided byte-level campaigns over the same pipelines (many simultaneous edits,
/// arbitrary bytes), seeded with generated small projects and shipped files
fn fuzz_campaigns(ctx: &Ctx, files: &[PathBuf]) {
    use crate::fuzz::{self, Campaign};
    use crate::gen::building;
    ctx.rule("fuzz:* (thorough): libFuzzer campaigns (16 processes x fixed -runs, -seed derived from the seed, fresh corpus) over bdl_text (Latin-1 text -> Data::new + catalogue + Model::try_from), ctehexml_text (UTF-8 text -> ctehexml::parse + catalogue + Model::try_from) and aux_text (KyGananciasSolares / NewBDL_O.tbl parsers); starting corpus = generated buildings printed as BDL / .ctehexml plus the smallest shipped files; dictionary = identifiers of the shipped files; oracle inside the target: Ok or Err passes, a panic (other than an open known finding), a hang (60 s, confirmed alone at 180 s) or process death is a violation. Non-trivial: the input got past the parser (parsed / kyg-ok / tbl-ok).");
    if !fuzz::build(ctx) {
        return;
    }
    let blds = fuzz::sample_values(&building::bld(), 24, ctx.seed(), "C19/fuzz-seeds");
    let systems = building::shipped_systems_sections();
    let mut by_size: Vec<(u64, &PathBuf)> = files.iter().map(|p| (std::fs::metadata(p).map(|m| m.len()).unwrap_or(0), p)).collect();
    by_size.sort();
    let latin1 = |s: &str| -> Vec<u8> { s.chars().map(|c| if (c as u32) < 256 { c as u8 } else { b'?' }).collect() };
    let shipped = |kind: Kind, n: usize| -> Vec<(String, String)> {
        by_size
            .iter()
            .filter(|(_, p)| kind_of(&p.to_string_lossy()) == kind)
            .take(n)
            .map(|(_, p)| (short(&p.to_string_lossy()).to_string(), read_text(&p.to_string_lossy())))
            .collect()
    };
    let all_texts = |kind: Kind| -> Vec<String> { files.iter().filter(|p| kind_of(&p.to_string_lossy()) == kind).take(12).map(|p| read_text(&p.to_string_lossy())).collect() };
    // bdl_text
    let mut seeds: Vec<(String, Vec<u8>)> = blds.iter().enumerate().map(|(i, b)| (format!("generated-{}", i), latin1(&building::print_bdl(b)))).collect();
    seeds.extend(shipped(Kind::Cte, 2).into_iter().map(|(n, t)| (n, latin1(&t))));
    let dict = fuzz::tokens_of(&all_texts(Kind::Cte), 500);
    fuzz::run(
        ctx,
        &Campaign {
            sub: "fuzz:bdl_text",
            target: "bdl_text",
            sig_prefix: "C19:",
            procs: 16,
            runs_per_proc: 60_000,
            max_len: 120_000,
            only_ascii: false,
            seeds,
            dict,
            timeout_s: 60,
            nontrivial_classes: &["parsed"],
        },
    );
    // ctehexml_text
    let mut seeds: Vec<(String, Vec<u8>)> = blds
        .iter()
        .enumerate()
        .map(|(i, b)| {
            let sys = if systems.is_empty() || i % 3 == 0 { vec![] } else { vec![systems[i % systems.len()].clone()] };
            (format!("generated-{}", i), building::print_ctehexml(b, &sys).into_bytes())
        })
        .collect();
    seeds.extend(shipped(Kind::Ctehexml, 2).into_iter().map(|(n, t)| (n, t.into_bytes())));
    let dict = fuzz::tokens_of(&all_texts(Kind::Ctehexml), 700);
    fuzz::run(
        ctx,
        &Campaign {
            sub: "fuzz:ctehexml_text",
            target: "ctehexml_text",
            sig_prefix: "C19:",
            procs: 16,
            runs_per_proc: 60_000,
            max_len: 200_000,
            only_ascii: false,
            seeds,
            dict,
            timeout_s: 60,
            nontrivial_classes: &["parsed"],
        },
    );
    // aux_text: first byte selects the parser
    let mut seeds: Vec<(String, Vec<u8>)> = vec![];
    for (n, t) in shipped(Kind::Kyg, 3) {
        let mut b = vec![0u8];
        b.extend(latin1(&t));
        seeds.push((n, b));
    }
    for (n, t) in shipped(Kind::Tbl, 3) {
        let mut b = vec![1u8];
        b.extend(latin1(&t));
        seeds.push((n, b));
    }
    let mut texts = all_texts(Kind::Kyg);
    texts.extend(all_texts(Kind::Tbl));
    let dict = fuzz::tokens_of(&texts, 300);
    fuzz::run(
        ctx,
        &Campaign {
            sub: "fuzz:aux_text",
            target: "aux_text",
            sig_prefix: "C19:",
            procs: 16,
            runs_per_proc: 400_000,
            max_len: 30_000,
            only_ascii: false,
            seeds,
            dict,
            timeout_s: 60,
            nontrivial_classes: &["kyg-ok", "tbl-ok"],
        },
    );
    for c in ["fuzz:bdl_text/converted", "fuzz:ctehexml_text/converted", "fuzz:aux_text/kyg-ok", "fuzz:aux_text/tbl-ok", "fuzz:bdl_text/parse-error"] {
        ctx.require_class(c);
    }
}

pub fn replay_one(ctx: &Ctx, doc: &ReplayDoc) {
    if doc.sub == "saved_inputs" {
        return crate::engine::replay_case::<FaultCase>(ctx, &doc.sub, &doc.case, check_case);
    }
    if doc.sub == "extra_files" {
        return crate::engine::replay_case::<FaultCase>(ctx, &doc.sub, &doc.case, check_extra);
    }
    crate::engine::replay_case::<FaultCase>(ctx, &doc.sub, &doc.case, check_case)
}
