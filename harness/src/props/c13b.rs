//! C13(c) — the reveal surfaces generated for a set-back window span exactly the gap between
//! the wall plane and the window plane along the window's four edges.

use proptest::prelude::*;
use serde::{Deserialize, Serialize};
use serde_json::json;

use bemodel::{BoundaryType, Model, Uuid, Wall, WinGeom, Window};

use crate::engine::{fp, CaseH, Ctx, Verdict};
use crate::gen::geom::*;
use crate::oracle::ray as ora;

#[derive(Clone, Debug, Serialize, Deserialize)]
pub struct RevealCase {
    pub wall: PosedPoly,
    pub x: f32,
    pub y: f32,
    pub w: f32,
    pub h: f32,
    pub setback: f32,
}

pub fn reveal_case() -> BoxedStrategy<RevealCase> {
    let wallpoly = prop_oneof![4 => rect_polygon(), 1 => star_polygon(3, 8)];
    (
        // WallGeom documents tilt in [0, 180]
        prop_oneof![2 => Just(90.0f32), 1 => prop_oneof![Just(0.0f32), Just(180.0f32)], 2 => dec2(0.0, 180.0)],
        azimuth_any(),
        position_box(50.0),
        wallpoly,
        dec2(0.0, 5.0),
        dec2(0.0, 3.0),
        dec2(0.2, 4.0),
        dec2(0.2, 3.0),
        prop_oneof![3 => dec2(0.01, 1.0), 1 => Just(1.0f32), 1 => dec2(0.05, 0.5)],
    )
        .prop_map(|(tilt, azimuth, position, polygon, x, y, w, h, setback)| RevealCase {
            wall: PosedPoly { tilt, azimuth, position, polygon },
            x,
            y,
            w,
            h,
            setback,
        })
        .boxed()
}

pub fn one_window_model(c: &RevealCase) -> (Model, Uuid, Uuid) {
    let wall_id = Uuid::from_u128(0x1111_0000_0000_4000_8000_000000000001);
    let win_id = Uuid::from_u128(0x2222_0000_0000_4000_8000_000000000002);
    let mut m = Model::default();
    m.walls.push(Wall {
        id: wall_id,
        name: "w".into(),
        bounds: BoundaryType::EXTERIOR,
        cons: Uuid::nil(),
        space: Uuid::nil(),
        next_to: None,
        geometry: c.wall.to_wallgeom(),
    });
    m.windows.push(Window {
        id: win_id,
        name: "v".into(),
        cons: Uuid::nil(),
        wall: wall_id,
        geometry: WinGeom {
            position: Some(nalgebra::point![c.x, c.y]),
            height: c.h,
            width: c.w,
            setback: c.setback,
        },
    });
    (m, wall_id, win_id)
}

fn sorted_pts(mut v: Vec<[f64; 3]>) -> Vec<[f64; 3]> {
    v.sort_by(|a, b| a.partial_cmp(b).unwrap());
    v
}

/// greedy matching of two 4-point sets within tol
fn same_points(a: &[[f64; 3]], b: &[[f64; 3]], tol: f64) -> bool {
    if a.len() != b.len() {
        return false;
    }
    let mut used = vec![false; b.len()];
    'o: for p in a {
        for (j, q) in b.iter().enumerate() {
            if !used[j] && ora::norm(ora::sub(*p, *q)) <= tol {
                used[j] = true;
                continue 'o;
            }
        }
        return false;
    }
    true
}

pub fn check_reveal(h: &CaseH, c: &RevealCase) -> Verdict {
    let (m, _wall_id, win_id) = one_window_model(c);
    let occ = m.collect_occluders();
    let reveals: Vec<_> = occ.iter().filter(|o| o.linked_to_id == Some(win_id)).collect();
    let p0 = &c.wall.polygon[0];
    let p1 = &c.wall.polygon[1];
    let frame_ok = p0.x == 0.0 && p0.y == 0.0 && p1.y == 0.0 && p1.x > 0.0;
    if c.setback < 0.01 {
        h.class("setback/<0.01");
        crate::vensure!(reveals.is_empty(), "C13:reveals:unexpected", "setback {} < 1 cm must give no reveal surfaces, got {}", c.setback, reveals.len());
        return Verdict::Pass;
    }
    crate::vensure!(reveals.len() == 4, "C13:reveals:count", "setback {} must give 4 reveal surfaces, got {}", c.setback, reveals.len());
    // actual global corners of each reveal quad
    let mut actual: Vec<Vec<[f64; 3]>> = vec![];
    for r in &reveals {
        let inv = match r.trans_matrix {
            Some(m) => m.inverse(),
            None => crate::vfail!("C13:reveals:no-transform", "reveal surface without transform"),
        };
        let pts: Vec<[f64; 3]> = r
            .polygon
            .iter()
            .map(|p| {
                let g = inv * nalgebra::point![p.x, p.y, 0.0];
                [g.x as f64, g.y as f64, g.z as f64]
            })
            .collect();
        actual.push(pts);
    }
    if !frame_ok {
        h.class("frame_ambiguous");
        return Verdict::Pass;
    }
    // expected from first principles: window rectangle on the wall plane (local z = 0) and on the
    // window plane (local z = -setback), wall local frame = polygon frame here.
    let (tilt, az, pos) = (c.wall.tilt as f64, c.wall.azimuth as f64, ora::v3(&c.wall.position));
    let (x, y, w, hh, s) = (c.x as f64, c.y as f64, c.w as f64, c.h as f64, c.setback as f64);
    let corner = |lx: f64, ly: f64, lz: f64| ora::to_global(tilt, az, pos, [lx, ly, lz]);
    let edges = [
        ((x, y), (x + w, y), "sill"),
        ((x + w, y), (x + w, y + hh), "right"),
        ((x + w, y + hh), (x, y + hh), "top"),
        ((x, y + hh), (x, y), "left"),
    ];
    let tol = 1e-3 + 2e-5 * (pos[0].abs() + pos[1].abs() + pos[2].abs());
    for (a, b, name) in edges {
        let expect = vec![corner(a.0, a.1, 0.0), corner(b.0, b.1, 0.0), corner(b.0, b.1, -s), corner(a.0, a.1, -s)];
        let found = actual.iter().any(|q| same_points(&expect, q, tol));
        if !found {
            let vertical = c.wall.tilt == 90.0;
            let sig = format!("C13:reveals:misplaced:{}:{}", name, if vertical { "vertical-wall" } else { "non-vertical-wall" });
            if h.known(&sig) {
                continue;
            }
            return Verdict::fail(
                sig,
                format!(
                    "no generated reveal surface coincides with the {} reveal spanned by the window edge on the wall plane and on the window plane (setback {}): expected {:?}, generated {:?}",
                    name,
                    c.setback,
                    sorted_pts(expect),
                    actual.iter().map(|a| sorted_pts(a.clone())).collect::<Vec<_>>()
                ),
            );
        }
    }
    // consistency with the sample points: they lie on the window plane, i.e. at -setback along the wall normal
    let origins = m.ray_origins_for_window(&m.windows[0]);
    for o in origins.iter().take(3) {
        let l = ora::to_local(tilt, az, pos, [o.x as f64, o.y as f64, o.z as f64]);
        crate::vensure!((l[2] + s).abs() < tol, "C13:reveals:sample-plane", "sample point {:?} is at local z={:.4}, window plane is at {:.4}", o, l[2], -s);
    }
    h.class(if c.wall.tilt == 90.0 { "wall/vertical" } else { "wall/other-tilt" });
    if c.setback >= 0.05 {
        h.nontrivial(fp(c));
    }
    h.sample(|| json!(c));
    Verdict::Pass
}

pub fn run_reveals(ctx: &Ctx) {
    ctx.rule("reveals: one positioned wall (rectangle from the origin, or any polygon: counted as frame_ambiguous, not asserted) with one window, setback in [0.01,1]; the 4 occluders linked to the window, mapped back through their stored inverse transform, must coincide within 1 mm with the quads spanned by each window edge on the wall plane and at -setback along the wall normal. Non-trivial: setback >= 0.05.");
    ctx.run_prop("reveals", ctx.tier().pick(300_000, 3_000_000), reveal_case, check_reveal);
    ctx.require_class("reveals/wall/vertical");
    ctx.require_class("reveals/wall/other-tilt");
}
