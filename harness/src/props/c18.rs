//! C18 — HULC file parsers recover every value that is written in the file.

use proptest::prelude::*;
use serde_json::json;

use hulc::bdl::{build_blocks, BdlBlockType};

use crate::engine::{catch, fp, Args, CaseH, Ctx, ReplayDoc, Verdict};
use crate::gen::bdl::{self, Doc, ExpVal, Val};
use crate::{vensure, vfail};

pub fn check_doc(h: &CaseH, d: &Doc) -> Verdict {
    let text = bdl::print_doc(d);
    let blocks = match catch(|| build_blocks(&text)) {
        Ok(Ok(b)) => b,
        Ok(Err(e)) => vfail!("C18:blocks:parse-error", "a well-formed document is rejected: {}", e.to_string().lines().next().unwrap_or("")),
        Err(p) => return Verdict::from_panic("C18:blocks", &p),
    };
    let exp = bdl::expected_blocks(d);
    vensure!(blocks.len() == exp.len(), "C18:blocks:count", "{} blocks written, {} parsed", exp.len(), blocks.len());
    let off = exp.len() - d.blocks.len();
    let mut multi = false;
    let mut quoted_blank = false;
    let mut comment_inside = false;
    for (i, (b, (name, btype, parent))) in blocks.iter().zip(exp.iter()).enumerate() {
        vensure!(&b.name == name, "C18:blocks:name", "block #{}: name {:?} written, {:?} parsed", i, name, b.name);
        let t: BdlBlockType = match btype.parse() {
            Ok(t) => t,
            Err(_) => vfail!("C18:blocks:type-unknown", "type keyword {} not accepted", btype),
        };
        vensure!(b.btype == t, "C18:blocks:type", "block {:?}: type {} written, {:?} parsed", name, btype, b.btype);
        vensure!(&b.parent == parent, "C18:blocks:parent", "block {:?} ({}): parent should be {:?}, parsed {:?}", name, btype, parent, b.parent);
        let attrs: &[bdl::Attr] = if i < off {
            if i == 0 {
                &d.preamble
            } else {
                continue;
            }
        } else {
            &d.blocks[i - off].attrs
        };
        vensure!(b.attrs.0.len() == attrs.len(), "C18:attrs:count", "block {:?}: {} attributes written, {} parsed ({:?})", name, attrs.len(), b.attrs.0.len(), b.attrs.0.keys().collect::<Vec<_>>());
        for a in attrs {
            if a.comment_before {
                comment_inside = true;
            }
            match (&a.val, a.brk) {
                (Val::NumList(v), k) if k > 0 && v.len() > k as usize => multi = true,
                (Val::NameList(v), k) if k > 0 && v.len() > k as usize => multi = true,
                (Val::Quoted { text, .. }, _) if text.contains(' ') || text.contains('(') => quoted_blank = true,
                _ => {}
            }
            match bdl::expected_attr(a) {
                ExpVal::Number(n) => {
                    let got = b.attrs.get_f32(&a.key);
                    vensure!(got.as_ref().ok() == Some(&n), "C18:attrs:number", "block {:?} attribute {}: {:?} written, parsed as {:?} / {:?}", name, a.key, a.val, got.ok(), b.attrs.get_str(&a.key).ok());
                }
                ExpVal::Text(s) => {
                    let got = b.attrs.get_str(&a.key);
                    vensure!(got.as_ref().ok() == Some(&s), "C18:attrs:text", "block {:?} attribute {}: expected text {:?}, parsed {:?} / number {:?}", name, a.key, s, got.ok(), b.attrs.get_f32(&a.key).ok());
                    // list extraction helpers give back the items
                    match &a.val {
                        Val::NumList(items) => {
                            let v = hulc::bdl::extract_f32vec(&s);
                            let e: Vec<f32> = items.iter().map(|t| t.parse::<f32>().unwrap()).collect();
                            vensure!(v.as_ref().ok() == Some(&e), "C18:lists:numbers", "attribute {}: list {:?} extracted as {:?}", a.key, items, v.ok());
                        }
                        Val::NameList(items) => {
                            let v = hulc::bdl::extract_namesvec(&s);
                            vensure!(&v == items, "C18:lists:names", "attribute {}: names {:?} extracted as {:?}", a.key, items, v);
                        }
                        _ => {}
                    }
                }
            }
        }
    }
    h.evals(blocks.len() as u64);
    let nesting = d.blocks.iter().any(|b| b.btype == "WINDOW") && d.blocks.iter().any(|b| b.btype == "SPACE");
    if multi {
        h.class("multi-line-list");
    }
    if d.crlf {
        h.class("crlf");
    }
    if !d.preamble.is_empty() {
        h.class("lider-preamble");
    }
    if multi && quoted_blank && comment_inside && nesting {
        h.nontrivial(fp(&text));
    }
    h.sample(|| json!({"text_head": text.chars().take(600).collect::<String>()}));
    Verdict::Pass
}

pub fn run(args: &Args) -> ! {
    let ctx = Ctx::new("C18", "exploration", args);
    ctx.rule("abstract documents: 1-40 blocks of every block type the parser names, 1-9 attributes each (numbers in 6 formats incl. right-aligned, bare words, quoted strings incl. padded and numeric ones, number and name lists on one line or broken over lines with the closing parenthesis on its own line or not), random indentation, blank lines, $ comment lines (containing '=' and '..'), CRLF or LF, tabs before '=', LIDER preamble, legacy header and separator lines, trailing END/COMPUTE/STOP; oracle = the abstract description: block count, name, type, parent tracking, attribute count, number-iff-token-parses typing, list text and extracted items. Non-trivial: a document with a multi-line list, a quoted string with blanks or parentheses, a comment inside a block and a space..window nesting.");
    ctx.assume("names are identifiers that are not numeric literals and contain no quote, '=' or '..' (as in every shipped file)");
    ctx.replay_regressions(replay_one);
    ctx.run_prop("abstract_docs", ctx.tier().pick(5_000, 300_000), bdl::doc, check_doc);
    super::c18b::run_more(&ctx);
    for c in ["abstract_docs/multi-line-list", "abstract_docs/crlf", "abstract_docs/lider-preamble"] {
        ctx.require_class(c);
    }
    ctx.finish()
}

pub fn replay_one(ctx: &Ctx, doc: &ReplayDoc) {
    use crate::engine::replay_case;
    match doc.sub.as_str() {
        "abstract_docs" => replay_case::<Doc>(ctx, &doc.sub, &doc.case, check_doc),
        s => super::c18b::replay_one(ctx, doc, s),
    }
}
