//! C18 continued: typed elements built from the blocks, real files re-printed in another layout,
//! KyGananciasSolares.txt and NewBDL_O.tbl.

use std::collections::BTreeMap;

use proptest::prelude::*;
use serde::{Deserialize, Serialize};
use serde_json::json;

use hulc::bdl::{build_blocks, Data};

use crate::engine::{catch, fp, CaseH, Ctx, ReplayDoc, Verdict};
use crate::gen::bdl::{self, Attr, Blk, Doc, Val};
use crate::gen::building::{self as gb, Bld, LocB, ShadeB, WallKind};
use crate::gen::geom::dec2;
use crate::gen::model::pick;
use crate::{vensure, vfail};

fn feq(a: f32, b: f32) -> bool {
    (a - b).abs() <= 1e-6 * a.abs().max(b.abs()).max(1.0)
}

// ------------------------------------------------------------------ (b) typed elements

pub fn check_typed(h: &CaseH, b: &Bld) -> Verdict {
    let text = gb::print_bdl_with_preamble(b);
    let d = match catch(|| Data::new(&text)) {
        Ok(Ok(d)) => d,
        Ok(Err(e)) => vfail!("C18:typed:parse-error", "a well-formed building is rejected: {}", e.to_string().lines().next().unwrap_or("")),
        Err(p) => return Verdict::from_panic("C18:typed", &p),
    };
    // materials
    for m in &b.materials {
        let pm = match d.db.materials.get(&m.name) {
            Some(x) => x,
            None => vfail!("C18:typed:material-missing", "material {:?} not found after parsing", m.name),
        };
        if m.detailed {
            let p = match pm.properties {
                Some(p) => p,
                None => vfail!("C18:typed:material", "material {:?} written with properties, parsed without", m.name),
            };
            vensure!(feq(p.conductivity, m.conductivity) && feq(p.density, m.density), "C18:typed:material", "material {:?}: conductivity/density {} {} written, {} {} parsed", m.name, m.conductivity, m.density, p.conductivity, p.density);
            vensure!(feq(p.specificheat, m.specific_heat.unwrap_or(800.0)), "C18:typed:material-default", "material {:?}: specific heat {:?} written (documented default 800), {} parsed", m.name, m.specific_heat, p.specificheat);
            vensure!(p.thickness.map(|t| (t * 1e6).round()) == m.thickness.map(|t| (t * 1e6).round()) && p.vapourdiffusivity == m.vapour, "C18:typed:material", "material {:?}: thickness/vapour {:?} {:?} written, {:?} {:?} parsed", m.name, m.thickness, m.vapour, p.thickness, p.vapourdiffusivity);
            vensure!(pm.resistance.is_none(), "C18:typed:material", "material {:?} has both properties and resistance", m.name);
        } else {
            vensure!(pm.properties.is_none() && pm.resistance.map_or(false, |r| feq(r, m.resistance)), "C18:typed:material", "material {:?}: resistance {} written, {:?} parsed", m.name, m.resistance, pm.resistance);
        }
    }
    // layer stacks
    for l in &b.layers {
        let wc = match d.db.wallcons.get(&l.name) {
            Some(x) => x,
            None => vfail!("C18:typed:layers-missing", "layers {:?} not found", l.name),
        };
        let names: Vec<String> = l.mats.iter().map(|(m, _)| b.materials[pick(*m, b.materials.len())].name.clone()).collect();
        vensure!(wc.material == names, "C18:typed:layers", "layers {:?}: materials {:?} written, {:?} parsed", l.name, names, wc.material);
        vensure!(wc.thickness.len() == l.mats.len() && wc.thickness.iter().zip(&l.mats).all(|(a, (_, t))| feq(*a, *t)), "C18:typed:layers", "layers {:?}: thickness {:?} written, {:?} parsed", l.name, l.mats, wc.thickness);
        vensure!(feq(wc.absorptance, 0.6), "C18:typed:layers-default", "layers {:?} without construction: absorptance {} (documented default 0.6)", l.name, wc.absorptance);
    }
    for g in &b.glasses {
        let pg = match d.db.glasses.get(&g.name) {
            Some(x) => x,
            None => vfail!("C18:typed:glass-missing", "glass {:?} not found", g.name),
        };
        vensure!(feq(pg.conductivity, g.conductance) && (pg.g_gln - g.shading_coef * 0.86).abs() < 1e-5, "C18:typed:glass", "glass {:?}: U {} SC {} written, U {} g {} parsed (g = SC x 0.86)", g.name, g.conductance, g.shading_coef, pg.conductivity, pg.g_gln);
    }
    for f in &b.frames {
        let pf = match d.db.frames.get(&f.name) {
            Some(x) => x,
            None => vfail!("C18:typed:frame-missing", "frame {:?} not found", f.name),
        };
        vensure!(feq(pf.conductivity, f.conduct) && feq(pf.absorptivity, f.abs) && feq(pf.width, f.width), "C18:typed:frame", "frame {:?}: {} {} {} written, {} {} {} parsed", f.name, f.conduct, f.abs, f.width, pf.conductivity, pf.absorptivity, pf.width);
    }
    for g in &b.gaps {
        let pg = match d.db.wincons.get(&g.name) {
            Some(x) => x,
            None => vfail!("C18:typed:gap-missing", "gap {:?} not found", g.name),
        };
        vensure!(pg.glass == b.glasses[pick(g.glass, b.glasses.len())].name && pg.frame == b.frames[pick(g.frame, b.frames.len())].name, "C18:typed:gap", "gap {:?}: glass/frame names differ", g.name);
        vensure!((pg.framefrac - g.percentage / 100.0).abs() < 1e-6 && feq(pg.infcoeff, g.inf_coef), "C18:typed:gap", "gap {:?}: percentage {} inf {} written, fraction {} inf {} parsed", g.name, g.percentage, g.inf_coef, pg.framefrac, pg.infcoeff);
        vensure!(feq(pg.deltau, g.delta_u.unwrap_or(0.0)) && pg.gglshwi == g.trans_july, "C18:typed:gap-default", "gap {:?}: dU {:?} g_sh {:?} written, {} {:?} parsed", g.name, g.delta_u, g.trans_july, pg.deltau, pg.gglshwi);
    }
    // spaces, walls, windows
    let nspaces: usize = b.floors.iter().map(|f| f.spaces.len()).sum();
    vensure!(d.spaces.len() == nspaces, "C18:typed:space-count", "{} spaces written, {} parsed", nspaces, d.spaces.len());
    let mut nwalls = 0;
    let mut nwins = 0;
    for fl in &b.floors {
        for s in &fl.spaces {
            let ps = match d.spaces.iter().find(|x| x.name == s.name) {
                Some(x) => x,
                None => vfail!("C18:typed:space-missing", "space {:?} not found", s.name),
            };
            vensure!(ps.floor == fl.name, "C18:typed:space-parent", "space {:?}: floor {:?} expected, {:?} parsed", s.name, fl.name, ps.floor);
            vensure!(ps.stype == s.stype && feq(ps.x, s.x) && feq(ps.y, s.y) && feq(ps.angle_with_building_north, s.azimuth), "C18:typed:space", "space {:?}: type/x/y/azimuth {} {} {} {} written, {} {} {} {} parsed", s.name, s.stype, s.x, s.y, s.azimuth, ps.stype, ps.x, ps.y, ps.angle_with_building_north);
            vensure!(feq(ps.height, fl.height) && feq(ps.z, fl.z + s.z) && feq(ps.floor_multiplier, fl.multiplier.unwrap_or(1.0)) && feq(ps.multiplier, s.multiplier), "C18:typed:space-floor-data", "space {:?}: height/z/multipliers ({}, {}, {:?}, {}) expected from its storey (z: storey + own Z), parsed ({}, {}, {}, {})", s.name, fl.height, fl.z + s.z, fl.multiplier, s.multiplier, ps.height, ps.z, ps.floor_multiplier, ps.multiplier);
            let inside = s.insidete.unwrap_or(s.stype == "CONDITIONED");
            vensure!(ps.insidete == inside, "C18:typed:space-default", "space {:?}: envelope flag {:?} written, type {}, parsed {} (documented: from TYPE when the flag is absent)", s.name, s.insidete, s.stype, ps.insidete);
            let sc = s.space_conds.map(|c| b.space_conds[pick(c, b.space_conds.len())].name.clone()).unwrap_or_else(|| "Residencial".to_string());
            let yc = s.system_conds.map(|c| b.system_conds[pick(c, b.system_conds.len())].name.clone()).unwrap_or_else(|| "Residencial".to_string());
            vensure!(ps.spaceconds == sc && ps.systemconds == yc, "C18:typed:space-default", "space {:?}: conditions ({:?}, {:?}) expected (default = SPACE-TYPE), parsed ({:?}, {:?})", s.name, sc, yc, ps.spaceconds, ps.systemconds);
            vensure!(ps.airchanges_h.map(|v| (v * 1e4).round()) == s.air_changes.map(|v| (v * 1e4).round()), "C18:typed:space", "space {:?}: air changes {:?} written, {:?} parsed", s.name, s.air_changes, ps.airchanges_h);
            vensure!(feq(ps.power, s.power) && (ps.veei_obj - s.veei_obj).abs() < 1e-5, "C18:typed:space", "space {:?}: power/veei differ", s.name);
            vensure!(ps.polygon.0.len() == s.outline.len() && ps.polygon.0.iter().zip(&s.outline).all(|(p, q)| feq(p.x, q.0) && feq(p.y, q.1)), "C18:typed:space-polygon", "space {:?}: outline {:?} written, {:?} parsed", s.name, s.outline, ps.polygon.0);
            for w in &s.walls {
                nwalls += 1;
                let pw = match d.walls.iter().find(|x| x.name == w.name) {
                    Some(x) => x,
                    None => vfail!("C18:typed:wall-missing", "wall {:?} not found", w.name),
                };
                vensure!(pw.space == s.name, "C18:typed:wall-parent", "wall {:?}: space {:?} expected, {:?} parsed", w.name, s.name, pw.space);
                vensure!(pw.cons == b.construction_name(w), "C18:typed:wall-cons", "wall {:?}: construction {:?} written, {:?} parsed", w.name, b.construction_name(w), pw.cons);
                let (bounds, next) = match &w.kind {
                    WallKind::Exterior | WallKind::Roof => ("EXTERIOR", None),
                    WallKind::Underground => ("GROUND", None),
                    WallKind::Interior { next } => ("INTERIOR", b.next_to(&s.name, *next)),
                    WallKind::Adiabatic => ("ADIABATIC", None),
                };
                vensure!(format!("{:?}", pw.bounds) == bounds && pw.nextto == next, "C18:typed:wall-bounds", "wall {:?}: {} / next to {:?} expected, {:?} / {:?} parsed", w.name, bounds, next, pw.bounds, pw.nextto);
                let (loc, tilt, az, has_poly, xyz) = match &w.loc {
                    LocB::Edge(i) => (Some(format!("V{}", i + 1)), if matches!(w.kind, WallKind::Roof) { 0.0 } else { 90.0 }, None, false, (0.0, 0.0, 0.0)),
                    LocB::Top => (Some("TOP".to_string()), 0.0, Some(0.0), false, (0.0, 0.0, 0.0)),
                    LocB::Bottom => (Some("BOTTOM".to_string()), 180.0, Some(180.0), false, (0.0, 0.0, 0.0)),
                    LocB::Poly { x, y, z, azimuth, tilt, .. } => (None, *tilt, Some(*azimuth), true, (*x, *y, *z)),
                };
                vensure!(pw.location == loc, "C18:typed:wall-location", "wall {:?}: location {:?} expected ('SPACE-' prefix stripped), {:?} parsed", w.name, loc, pw.location);
                vensure!(feq(pw.tilt, tilt), "C18:typed:wall-tilt-default", "wall {:?}: tilt {} expected (written or default by location/type), {} parsed", w.name, tilt, pw.tilt);
                vensure!(pw.polygon.is_some() == has_poly && feq(pw.x, xyz.0) && feq(pw.y, xyz.1) && feq(pw.z, xyz.2), "C18:typed:wall-geometry", "wall {:?}: polygon/x/y/z differ", w.name);
                if let Some(a) = az {
                    vensure!(feq(pw.angle_with_space_north, a), "C18:typed:wall-azimuth", "wall {:?}: azimuth {} expected, {} parsed", w.name, a, pw.angle_with_space_north);
                }
                if let LocB::Poly { poly, .. } = &w.loc {
                    let pp = pw.polygon.as_ref().unwrap();
                    vensure!(pp.0.len() == poly.len() && pp.0.iter().zip(poly).all(|(p, q)| feq(p.x, q.0) && feq(p.y, q.1)), "C18:typed:wall-polygon", "wall {:?}: polygon differs", w.name);
                }
                // the absorptance of the CONSTRUCTION child block ends up in the layer stack of that name
                if let Some(abs) = w.construction_abs {
                    match d.db.wallcons.get(&b.construction_name(w)) {
                        Some(c) => vensure!((c.absorptance - abs).abs() < 1e-5, "C18:typed:construction", "construction {:?}: absorptance {} written, {} parsed", c.name, abs, c.absorptance),
                        None => vfail!("C18:typed:construction-missing", "construction {:?} of wall {:?} not found", b.construction_name(w), w.name),
                    }
                }
                let (hw, hh) = match &w.loc {
                    LocB::Edge(i) => (Bld::edge_len(s, *i), fl.height),
                    _ => (1.0, 1.0),
                };
                for (k, win) in w.windows.iter().enumerate() {
                    nwins += 1;
                    let pwin = match d.windows.iter().find(|x| x.name == win.name) {
                        Some(x) => x,
                        None => vfail!("C18:typed:window-missing", "window {:?} not found", win.name),
                    };
                    let (x, y, ww, wh) = Bld::window_rect(win, k, w.windows.len(), hw, hh);
                    vensure!(pwin.wall == w.name, "C18:typed:window-parent", "window {:?}: wall {:?} expected, {:?} parsed", win.name, w.name, pwin.wall);
                    vensure!(feq(pwin.x, x) && feq(pwin.y, y) && feq(pwin.width, ww) && feq(pwin.height, wh) && feq(pwin.setback, win.setback), "C18:typed:window", "window {:?}: ({}, {}, {}, {}, setback {}) written, ({}, {}, {}, {}, {}) parsed", win.name, x, y, ww, wh, win.setback, pwin.x, pwin.y, pwin.width, pwin.height, pwin.setback);
                    vensure!(pwin.cons == b.gaps[pick(win.gap, b.gaps.len())].name, "C18:typed:window-cons", "window {:?}: gap differs", win.name);
                    vensure!(pwin.coefs.is_some() == win.coeff, "C18:typed:window-coeff", "window {:?}: COEFF written {} parsed {:?}", win.name, win.coeff, pwin.coefs);
                    match (&win.overhang, &pwin.overhang) {
                        (Some((a, bb, wd, dp, ang)), Some(o)) => vensure!(feq(o.a, *a) && feq(o.b, *bb) && feq(o.width, *wd) && feq(o.depth, *dp) && feq(o.angle, *ang), "C18:typed:overhang", "window {:?}: overhang differs", win.name),
                        (None, None) => {}
                        _ => vfail!("C18:typed:overhang", "window {:?}: overhang written {:?}, parsed {:?}", win.name, win.overhang, pwin.overhang.is_some()),
                    }
                    for (side, wf, pf) in [("left", &win.left_fin, &pwin.left_fin), ("right", &win.right_fin, &pwin.right_fin)] {
                        match (wf, pf) {
                            (Some((a, bb, dp, ht)), Some(o)) => vensure!(feq(o.a, *a) && feq(o.b, *bb) && feq(o.depth, *dp) && feq(o.height, *ht), "C18:typed:fin", "window {:?}: {} fin differs", win.name, side),
                            (None, None) => {}
                            _ => vfail!("C18:typed:fin", "window {:?}: {} fin written {:?}, parsed {}", win.name, side, wf, pf.is_some()),
                        }
                    }
                }
            }
        }
    }
    vensure!(d.walls.len() == nwalls && d.windows.len() == nwins, "C18:typed:element-count", "{} walls / {} windows written, {} / {} parsed", nwalls, nwins, d.walls.len(), d.windows.len());
    // bridges and shades
    vensure!(d.thermal_bridges.len() == b.bridges.len(), "C18:typed:bridge-count", "{} bridges written, {} parsed", b.bridges.len(), d.thermal_bridges.len());
    for t in &b.bridges {
        let pt = match d.thermal_bridges.iter().find(|x| x.name == t.name) {
            Some(x) => x,
            None => vfail!("C18:typed:bridge-missing", "bridge {:?} not found", t.name),
        };
        vensure!(pt.length.map(|l| (l * 1e3).round()) == t.length.map(|l| (l * 1e3).round()) && (pt.psi - t.psi).abs() < 1e-5 && feq(pt.frsi, t.frsi) && pt.tbtype == t.tbtype, "C18:typed:bridge", "bridge {:?}: ({:?}, {}, {}, {:?}) written, ({:?}, {}, {}, {:?}) parsed", t.name, t.length, t.psi, t.frsi, t.tbtype, pt.length, pt.psi, pt.frsi, pt.tbtype);
        vensure!(pt.catalog.is_some() == (t.definition == Some(3)) && pt.geometry.is_some() == !["PILLAR", "WINDOW-FRAME", ""].contains(&t.tbtype.as_str()), "C18:typed:bridge-definition", "bridge {:?}: definition {:?} type {:?}: catalogue {} geometry {}", t.name, t.definition, t.tbtype, pt.catalog.is_some(), pt.geometry.is_some());
    }
    vensure!(d.shadings.len() == b.shades.len(), "C18:typed:shade-count", "{} shades written, {} parsed", b.shades.len(), d.shadings.len());
    for s in &b.shades {
        match s {
            ShadeB::Rect { name, x, y, z, width, height, azimuth, tilt } => {
                let ps = d.shadings.iter().find(|q| &q.name == name);
                let g = ps.and_then(|q| q.geometry.as_ref());
                match g {
                    Some(g) => vensure!((g.x - x).abs() < 1e-4 && (g.y - y).abs() < 1e-4 && (g.z - z).abs() < 1e-4 && (g.width - width).abs() < 1e-4 && (g.height - height).abs() < 1e-4 && (g.azimuth - azimuth).abs() < 1e-4 && (g.tilt - tilt).abs() < 1e-4, "C18:typed:shade", "shade {:?}: rectangle differs", name),
                    None => vfail!("C18:typed:shade", "shade {:?}: rectangle form written, parsed {:?}", name, ps.map(|q| q.vertices.is_some())),
                }
            }
            ShadeB::Verts { name, v } => {
                let ps = d.shadings.iter().find(|q| &q.name == name);
                match ps.and_then(|q| q.vertices.as_ref()) {
                    Some(pv) => vensure!(pv.len() == v.len() && pv.iter().zip(v).all(|(p, q)| feq(p.x, q.0) && feq(p.y, q.1) && feq(p.z, q.2)), "C18:typed:shade", "shade {:?}: vertices {:?} written, {:?} parsed", name, v, pv),
                    None => vfail!("C18:typed:shade", "shade {:?}: vertex form written, not parsed as such", name),
                }
            }
        }
    }
    // schedules
    let (mut nd, mut nw, mut ny) = (0, 0, 0);
    for sch in &d.schedules {
        match sch {
            hulc::bdl::Schedule::Day(x) => {
                nd += 1;
                let e = match b.days.iter().find(|q| q.name == x.name) {
                    Some(e) => e,
                    None => vfail!("C18:typed:schedule", "unexpected daily schedule {:?}", x.name),
                };
                vensure!(x.values.len() == e.values.len() && x.values.iter().zip(&e.values).all(|(a, c)| feq(*a, *c)), "C18:typed:schedule-day", "daily schedule {:?}: {:?} written, {:?} parsed", x.name, e.values, x.values);
            }
            hulc::bdl::Schedule::Week(x) => {
                nw += 1;
                let e = match b.weeks.iter().find(|q| q.name == x.name) {
                    Some(e) => e,
                    None => vfail!("C18:typed:schedule", "unexpected weekly schedule {:?}", x.name),
                };
                let names: Vec<String> = e.days.iter().map(|p| b.days[pick(*p, b.days.len())].name.clone()).collect();
                vensure!(x.days == names, "C18:typed:schedule-week", "weekly schedule {:?}: {:?} written, {:?} parsed", x.name, names, x.days);
            }
            hulc::bdl::Schedule::Year(x) => {
                ny += 1;
                let e = match b.years.iter().find(|q| q.name == x.name) {
                    Some(e) => e,
                    None => vfail!("C18:typed:schedule", "unexpected yearly schedule {:?}", x.name),
                };
                let months: Vec<u32> = e.periods.iter().map(|p| p.0).collect();
                let days: Vec<u32> = e.periods.iter().map(|p| p.1).collect();
                let weeks: Vec<String> = e.periods.iter().map(|p| b.weeks[pick(p.2, b.weeks.len())].name.clone()).collect();
                vensure!(x.months == months && x.days == days && x.weeks == weeks, "C18:typed:schedule-year", "yearly schedule {:?}: dates/weeks differ: written {:?} {:?} {:?}, parsed {:?} {:?} {:?}", x.name, months, days, weeks, x.months, x.days, x.weeks);
            }
        }
    }
    vensure!(nd == b.days.len() && nw == b.weeks.len() && ny == b.years.len(), "C18:typed:schedule-count", "schedules written {}/{}/{}, parsed {}/{}/{}", b.days.len(), b.weeks.len(), b.years.len(), nd, nw, ny);
    vensure!(d.space_conditions.len() == b.space_conds.len() && d.system_conditions.len() == b.system_conds.len(), "C18:typed:conditions-count", "conditions blocks differ");
    // build parameters
    match d.meta.get(&hulc::bdl::BdlBlockType::BuildParameters) {
        Some(bp) => vensure!(bp.attrs.get_f32("AZIMUTH").ok().map_or(false, |a| feq(a, b.deviation)), "C18:typed:build-parameters", "global deviation {} written, {:?} parsed", b.deviation, bp.attrs.get_f32("AZIMUTH").ok()),
        None => vfail!("C18:typed:build-parameters", "BUILD-PARAMETERS block not found"),
    }
    h.evals((nwalls + nwins + nspaces) as u64);
    if nwins > 0 && b.floors.len() > 1 {
        h.nontrivial(fp(&(b.salt, nwalls, nwins)));
    }
    if b.crlf {
        h.class("crlf");
    }
    h.sample(|| json!({"floors": b.floors.len(), "spaces": nspaces, "walls": nwalls, "windows": nwins, "shades": b.shades.len(), "bdl_head": text.chars().take(300).collect::<String>()}));
    Verdict::Pass
}

// ------------------------------------------------------------------ (c) real files in another layout

fn to_doc(text: &str, layout: u32) -> Result<Doc, String> {
    let blocks = build_blocks(text).map_err(|e| e.to_string())?;
    let mut out = vec![];
    for (bi, b) in blocks.iter().enumerate() {
        let keyword = block_keyword(b.btype);
        let mut attrs = vec![];
        for (ai, (k, _)) in b.attrs.0.iter().enumerate() {
            let hsh = crate::engine::mix(layout as u64, k, (bi * 131 + ai) as u64);
            let val = if let Ok(n) = b.attrs.get_f32(k) {
                // print the number so that it reads back as the same f32
                Val::Num(format!("{}", n))
            } else {
                let s = b.attrs.get_str(k).unwrap_or_default();
                if s.starts_with('(') {
                    // keep lists verbatim (as one bare token sequence)
                    Val::Word(s)
                } else if s.is_empty() || s.contains(' ') || hsh % 3 == 0 || bdl::is_numeric_token(&s) {
                    Val::Quoted { text: s, pad: 0 }
                } else {
                    Val::Word(s)
                }
            };
            attrs.push(Attr {
                key: k.clone(),
                val,
                brk: 0,
                close_own_line: false,
                sp: ((hsh % 9) as u8, ((hsh >> 8) % 3) as u8),
                width: if hsh % 4 == 0 { 14 } else { 0 },
                comment_before: hsh % 11 == 0,
                tab: hsh % 13 == 0,
            });
        }
        if attrs.is_empty() {
            return Err(format!("block {} without attributes", b.name));
        }
        out.push(Blk {
            name: b.name.clone(),
            btype: keyword.to_string(),
            attrs,
            indent: (layout % 7) as u8,
            blank_before: ((layout as usize + bi) % 3) as u8,
            comment_before: bi % 5 == 0,
            term_indent: ((layout >> 3) % 9) as u8,
            name_pad: 0,
        });
    }
    // the synthetic PARTELIDER block holds the loose attributes that precede the general data block
    let mut preamble = vec![];
    if out.first().map_or(false, |b| b.btype == "PARTELIDER") && out.get(1).map_or(false, |b| b.name == "DATOS GENERALES" || (b.name == "Defecto" && b.btype == "DESCRIPTION")) {
        preamble = out.remove(0).attrs;
        for a in &mut preamble {
            a.comment_before = false;
        }
    }
    Ok(Doc {
        blocks: out,
        crlf: layout % 2 == 0,
        preamble,
        legacy_header: false,
        separators: false,
        trailing_keywords: layout % 3 == 0,
    })
}

fn block_keyword(t: hulc::bdl::BdlBlockType) -> &'static str {
    for k in bdl::BLOCK_TYPES {
        if k.parse::<hulc::bdl::BdlBlockType>().ok() == Some(t) {
            return k;
        }
    }
    "DESCRIPTION"
}

#[derive(Clone, Debug, Serialize, Deserialize)]
pub struct RealCase {
    pub file: String,
    pub layout: u32,
}

fn real_files() -> Vec<String> {
    crate::util::files_with_ext(std::path::Path::new("/repo/hulc_tests/tests"), &["ctehexml", "cte"]).into_iter().map(|p| p.to_string_lossy().to_string()).collect()
}

fn bdl_text_of(path: &str) -> String {
    if path.to_lowercase().ends_with(".ctehexml") {
        let t = std::fs::read_to_string(path).unwrap_or_default();
        match (t.find("<EntradaGraficaLIDER>"), t.find("</EntradaGraficaLIDER>")) {
            (Some(a), Some(b)) => t[a + "<EntradaGraficaLIDER>".len()..b].replace("<![CDATA[", "").replace("]]>", ""),
            _ => String::new(),
        }
    } else {
        crate::util::read_latin1(std::path::Path::new(path))
    }
}

fn check_real(h: &CaseH, c: &RealCase) -> Verdict {
    let text = bdl_text_of(&c.file);
    let b1 = match catch(|| build_blocks(&text)) {
        Ok(Ok(b)) => b,
        Ok(Err(e)) => vfail!("C18:real:parse-error", "{}: {}", c.file, e.to_string().lines().next().unwrap_or("")),
        Err(p) => return Verdict::from_panic("C18:real", &p),
    };
    let doc = match to_doc(&text, c.layout) {
        Ok(d) => d,
        Err(e) => vfail!("C18:real:to-doc", "{}: {}", c.file, e),
    };
    let text2 = bdl::print_doc(&doc);
    let b2 = match catch(|| build_blocks(&text2)) {
        Ok(Ok(b)) => b,
        Ok(Err(e)) => vfail!("C18:real:relayout-parse-error", "{} re-printed with layout {}: {}", c.file, c.layout, e.to_string().lines().next().unwrap_or("")),
        Err(p) => return Verdict::from_panic("C18:real-relayout", &p),
    };
    vensure!(b1.len() == b2.len(), "C18:real:block-count", "{}: {} blocks, {} after re-layout", c.file, b1.len(), b2.len());
    for (x, y) in b1.iter().zip(&b2) {
        vensure!(x.name == y.name && x.btype == y.btype && x.parent == y.parent, "C18:real:block-differs", "{}: block {:?}/{:?}/{:?} becomes {:?}/{:?}/{:?} after re-layout", c.file, x.name, x.btype, x.parent, y.name, y.btype, y.parent);
        vensure!(x.attrs.0.len() == y.attrs.0.len(), "C18:real:attr-count", "{}: block {:?}: {} attributes, {} after re-layout", c.file, x.name, x.attrs.0.len(), y.attrs.0.len());
        for k in x.attrs.0.keys() {
            let same = match (x.attrs.get_f32(k), y.attrs.get_f32(k)) {
                (Ok(a), Ok(b)) => a == b || (a.is_nan() && b.is_nan()),
                (Err(_), Err(_)) => x.attrs.get_str(k).ok() == y.attrs.get_str(k).ok(),
                _ => false,
            };
            vensure!(same, "C18:real:attr-differs", "{}: block {:?} attribute {}: {:?}/{:?} becomes {:?}/{:?}", c.file, x.name, k, x.attrs.get_f32(k).ok(), x.attrs.get_str(k).ok(), y.attrs.get_f32(k).ok(), y.attrs.get_str(k).ok());
        }
    }
    // typed data agree as well
    let (d1, d2) = (Data::new(&text), Data::new(&text2));
    match (d1, d2) {
        (Ok(a), Ok(b)) => {
            vensure!(a.spaces.len() == b.spaces.len() && a.walls.len() == b.walls.len() && a.windows.len() == b.windows.len() && a.schedules.len() == b.schedules.len() && a.db.materials.len() == b.db.materials.len(), "C18:real:typed-count", "{}: typed element counts change after re-layout", c.file);
            vensure!(format!("{:?}", a.walls) == format!("{:?}", b.walls) && format!("{:?}", a.windows) == format!("{:?}", b.windows) && format!("{:?}", a.spaces) == format!("{:?}", b.spaces), "C18:real:typed-differs", "{}: typed walls/windows/spaces change after re-layout", c.file);
        }
        (Err(_), Err(_)) => {
            h.class("not-convertible-both");
        }
        (a, b) => vfail!("C18:real:typed-outcome", "{}: Data::new gives {} before and {} after re-layout", c.file, a.is_ok(), b.is_ok()),
    }
    h.evals(b1.len() as u64);
    h.nontrivial(fp(c));
    h.sample(|| json!({"file": c.file, "layout": c.layout, "blocks": b1.len()}));
    Verdict::Pass
}

// ------------------------------------------------------------------ (d) KyGananciasSolares.txt

#[derive(Clone, Debug, Serialize, Deserialize)]
pub struct KygCase {
    pub new_layout: bool,
    pub comma: bool,
    pub walls: Vec<(f32, f32, f32)>,
    pub windows: Vec<(f32, f32, u8, f32, f32, f32, f32)>,
    pub bridges: Vec<(f32, f32)>,
    pub k: f32,
    pub hfactors: Vec<f32>,
    pub blank_lines: bool,
}

fn kyg_case() -> BoxedStrategy<KygCase> {
    (
        any::<bool>(),
        any::<bool>(),
        proptest::collection::vec((dec2(0.5, 300.0), dec2(0.1, 6.0), dec2(0.0, 1.0)), 0..8),
        proptest::collection::vec((dec2(0.2, 30.0), dec2(0.5, 6.0), 0u8..9, dec2(0.0, 100.0), dec2(0.1, 0.9), dec2(1.0, 100.0), dec2(0.01, 1.0)), 0..6),
        proptest::collection::vec((dec2(0.0, 300.0), (-200i32..1500).prop_map(|v| v as f32 / 1000.0)), 0..6),
        (0i32..6000).prop_map(|v| v as f32 / 1000.0),
        proptest::collection::vec(dec2(0.0, 300.0), 0..9),
        any::<bool>(),
    )
        .prop_map(|(new_layout, comma, walls, windows, bridges, k, hfactors, blank_lines)| KygCase { new_layout, comma, walls, windows, bridges, k, hfactors, blank_lines })
        .boxed()
}

const ORIENTS: [&str; 9] = ["S", "SE", "E", "NE", "N", "NO", "O", "SO", "H"];

fn print_kyg(c: &KygCase) -> String {
    let n = |v: f32, d: usize| {
        let s = format!("{:.*}", d, v);
        if c.comma {
            s.replace('.', ",")
        } else {
            s
        }
    };
    let mut l: Vec<String> = vec!["###;Datos para Factor de Pérdidas".into()];
    for (i, (a, u, g, ff, ggl, inf, _)) in c.windows.iter().map(|w| (w.0, w.1, w.2, w.3, w.4, w.5, w.6)).enumerate() {
        let o = ORIENTS[g as usize % 9];
        if c.new_layout {
            l.push(format!("Ventana;P01_E01_PE{:03}_V;{};{};{} ;{};{};-1.00;1.00;{};Doble -- Mrpt - Gris claro", i + 1, n(a, 2), n(u, 2), o, n(ff, 2), n(ggl, 2), n(inf, 2)));
        } else {
            l.push(format!("Ventana;P01_E01_PE{:03}_V;{};{};{} ;{}", i + 1, n(a, 2), n(u, 2), o, n(ff, 2)));
        }
        if c.blank_lines && i % 2 == 0 {
            l.push(String::new());
        }
    }
    for (i, (a, u, b)) in c.walls.iter().enumerate() {
        if c.new_layout {
            l.push(format!("Muro;P01_E01_PE{:03};{};{};{};Fachada;S ;Fachada por defecto D", i + 1, n(*a, 2), n(*u, 2), n(*b, 2)));
        } else {
            l.push(format!("Muro;P01_E01_PE{:03};{};{};{}", i + 1, n(*a, 2), n(*u, 2), n(*b, 2)));
        }
    }
    for (i, (ll, psi)) in c.bridges.iter().enumerate() {
        if c.new_layout {
            l.push(format!("PPTT;{};{};PT_{};SDINT", n(*ll, 2), n(*psi, 3), i + 1));
        } else {
            l.push(format!("PPTT;{};{};PT_{}", n(*ll, 2), n(*psi, 3), i + 1));
        }
    }
    l.push(format!("Coeficiente K = ;{}", n(c.k, 3)));
    l.push("###;Datos para Factor de Insolación".into());
    for (i, v) in c.hfactors.iter().enumerate() {
        l.push(format!("{} ; {}", i, n(*v, 6)));
    }
    // solar gain rows always use the decimal point (as HULC writes them)
    for (i, w) in c.windows.iter().enumerate() {
        let htot = 80000.0f32;
        l.push(format!("\"P01_E01_PE{:03}_V\"; {:.6}; {:.6}; {:.6}; {:.6}; {:.6}; {:.6}; {:.6}", i + 1, (w.2 as f32) * 45.0, w.0, htot, htot * 0.9, htot * 0.8, htot * w.6, 1234.5));
    }
    l.push("###;Fin".into());
    l.push("###".into());
    l.join("\r\n") + "\r\n"
}

fn check_kyg(h: &CaseH, c: &KygCase) -> Verdict {
    let text = print_kyg(c);
    let k = match catch(|| hulc::kyg::parse(&text)) {
        Ok(Ok(k)) => k,
        Ok(Err(e)) => vfail!("C18:kyg:parse-error", "a well-formed KyG file is rejected: {}", e),
        Err(p) => return Verdict::from_panic("C18:kyg", &p),
    };
    let r = |v: f32, d: i32| (v * 10f32.powi(d)).round() / 10f32.powi(d);
    vensure!(k.walls.len() == c.walls.len() && k.windows.len() == c.windows.len() && k.thermal_bridges.len() == c.bridges.len(), "C18:kyg:count", "rows written {}/{}/{}, parsed {}/{}/{}", c.walls.len(), c.windows.len(), c.bridges.len(), k.walls.len(), k.windows.len(), k.thermal_bridges.len());
    vensure!((k.k - r(c.k, 3)).abs() < 1e-5, "C18:kyg:k", "K {} written, {} parsed", c.k, k.k);
    vensure!(k.hfactors.len() == c.hfactors.len() && k.hfactors.iter().zip(&c.hfactors).all(|(a, b)| (a - b).abs() < 1e-4), "C18:kyg:hfactors", "insolation factors {:?} written, {:?} parsed", c.hfactors, k.hfactors);
    for (i, (a, u, b)) in c.walls.iter().enumerate() {
        let name = format!("P01_E01_PE{:03}", i + 1);
        match k.walls.get(&name) {
            Some(w) => vensure!((w.a - a).abs() < 1e-4 && (w.u - u).abs() < 1e-4 && (w.btrx - b).abs() < 1e-4 && w.cons.is_some() == c.new_layout, "C18:kyg:wall", "wall row {}: ({}, {}, {}) written, ({}, {}, {}) parsed", name, a, u, b, w.a, w.u, w.btrx),
            None => vfail!("C18:kyg:wall-missing", "wall row {} not found", name),
        }
    }
    for (i, w) in c.windows.iter().enumerate() {
        let name = format!("P01_E01_PE{:03}_V", i + 1);
        match k.windows.get(&name) {
            Some(p) => {
                let o = ORIENTS[w.2 as usize % 9].replace('O', "W");
                vensure!((p.a - w.0).abs() < 1e-4 && (p.u - w.1).abs() < 1e-4 && (p.ff - w.3 / 100.0).abs() < 1e-5 && p.orientation == o, "C18:kyg:window", "window row {}: ({}, {}, {}, {}) written, ({}, {}, {}, {}) parsed", name, w.0, w.1, w.3, o, p.a, p.u, p.ff, p.orientation);
                vensure!((p.fshobst - w.6).abs() < 1e-4 && (p.azimuth_n - w.2 as f32 * 45.0).abs() < 1e-3, "C18:kyg:gains", "window row {}: obstruction factor {} azimuth {} written, {} {} parsed", name, w.6, w.2 as f32 * 45.0, p.fshobst, p.azimuth_n);
                if c.new_layout {
                    vensure!(p.ggln.map_or(false, |g| (g - w.4).abs() < 1e-4) && p.infcoeff_100.map_or(false, |g| (g - w.5).abs() < 1e-4) && p.cons.is_some(), "C18:kyg:window-new-columns", "window row {}: g {} inf {} written, {:?} {:?} parsed", name, w.4, w.5, p.ggln, p.infcoeff_100);
                } else {
                    vensure!(p.ggln.is_none() && p.cons.is_none(), "C18:kyg:window-old-columns", "window row {}: old layout has no glass columns", name);
                }
            }
            None => vfail!("C18:kyg:window-missing", "window row {} not found", name),
        }
    }
    for (i, (l, psi)) in c.bridges.iter().enumerate() {
        let name = format!("PT_{}", i + 1);
        match k.thermal_bridges.get(&name) {
            Some(p) => vensure!((p.l - l).abs() < 1e-4 && (p.psi - psi).abs() < 1e-5, "C18:kyg:bridge", "bridge row {}: ({}, {}) written, ({}, {}) parsed", name, l, psi, p.l, p.psi),
            None => vfail!("C18:kyg:bridge-missing", "bridge row {} not found", name),
        }
    }
    h.class(if c.comma { "decimal-comma" } else { "decimal-point" });
    h.class(if c.new_layout { "new-layout" } else { "old-layout" });
    if !c.windows.is_empty() && !c.walls.is_empty() {
        h.nontrivial(fp(c));
    }
    h.sample(|| json!({"text": text.chars().take(400).collect::<String>()}));
    Verdict::Pass
}

// ------------------------------------------------------------------ (e) NewBDL_O.tbl

#[derive(Clone, Debug, Serialize, Deserialize)]
pub struct TblCase {
    pub elements: Vec<(f32, f32, f32, f32, f32, f32, u8)>,
    pub spaces: Vec<(i32, f32, f32)>,
}

fn tbl_case() -> BoxedStrategy<TblCase> {
    (
        proptest::collection::vec((dec2(0.1, 300.0), dec2(0.1, 6.0), dec2(0.0, 400.0), dec2(0.0, 1.0), dec2(0.0, 360.0), prop_oneof![Just(0.0f32), Just(90.0f32), Just(180.0f32)], 0u8..7), 1..12),
        proptest::collection::vec((1i32..13, dec2(1.0, 500.0), dec2(0.0, 30.0)), 0..5),
    )
        .prop_map(|(elements, spaces)| TblCase { elements, spaces })
        .boxed()
}

const ELEM_CODES: [&str; 7] = ["0", "1", "2", "-2", "-3", "-4", "-5"];

fn print_tbl(c: &TblCase) -> String {
    let mut l: Vec<String> = vec!["Nombre".into(), " A U p f fv angNorte tilt tipo codigo0 codigo1".into(), format!("{} {}", c.elements.len(), c.spaces.len())];
    for (i, e) in c.elements.iter().enumerate() {
        l.push(format!("\"P01_E01_EL{:03}\"", i + 1));
        l.push(format!(" {:.6} {:.6} {:.6} {:.6} {:.6} {:.6} {:.6} {} {} {}", e.0, e.1, e.2, e.3, e.3, e.4, e.5, ELEM_CODES[e.6 as usize % 7], i, -1));
    }
    for (i, s) in c.spaces.iter().enumerate() {
        l.push(format!("\"P01_E{:02}\"", i + 1));
        l.push(format!(" {} {} {:.6} {:.6}", i + 1, s.0, s.1, s.2));
    }
    l.join("\r\n") + "\r\n"
}

fn check_tbl(h: &CaseH, c: &TblCase) -> Verdict {
    let text = print_tbl(c);
    let dir = crate::engine::target_dir().join("tmp");
    let dir = dir.as_path();
    let _ = std::fs::create_dir_all(dir);
    let path = dir.join(format!("c18-{}-{:x}.tbl", std::process::id(), crate::engine::fnv64(format!("{:?}{:?}", std::thread::current().id(), fp(c)).as_bytes())));
    if std::fs::write(&path, &text).is_err() {
        return Verdict::Pass;
    }
    let r = catch(|| hulc::tbl::parse(&path));
    let _ = std::fs::remove_file(&path);
    let t = match r {
        Ok(Ok(t)) => t,
        Ok(Err(e)) => vfail!("C18:tbl:parse-error", "a well-formed .tbl file is rejected: {:#}", e),
        Err(p) => return Verdict::from_panic("C18:tbl", &p),
    };
    vensure!(t.elements.len() == c.elements.len() && t.spaces.len() == c.spaces.len(), "C18:tbl:count", "{} elements / {} spaces written, {} / {} parsed", c.elements.len(), c.spaces.len(), t.elements.len(), t.spaces.len());
    for (i, e) in c.elements.iter().enumerate() {
        let name = format!("P01_E01_EL{:03}", i + 1);
        match t.elements.get(&name) {
            Some(p) => vensure!((p.area - e.0).abs() < 1e-4 && (p.u - e.1).abs() < 1e-4 && (p.w_or_inf - e.2).abs() < 1e-3 && (p.g_winter - e.3).abs() < 1e-4 && (p.ang_north - e.4).abs() < 1e-3 && (p.tilt - e.5).abs() < 1e-3 && p.id_surf == i as i32 && p.id_space == -1 && format!("{:?}", p.type_) == ["EXTWALL", "WINDOW", "DOOR", "ADBWALL", "GNDWALL", "INTWALL", "INTFLOOR"][e.6 as usize % 7], "C18:tbl:element", "element {}: {:?} written, parsed area {} u {} w {} g {} ang {} tilt {}", name, e, p.area, p.u, p.w_or_inf, p.g_winter, p.ang_north, p.tilt),
            None => vfail!("C18:tbl:element-missing", "element {} not found", name),
        }
    }
    for (i, s) in c.spaces.iter().enumerate() {
        let name = format!("P01_E{:02}", i + 1);
        match t.spaces.get(&name) {
            Some(p) => vensure!(p.id_space == i as i32 + 1 && p.mult == s.0 && (p.area - s.1).abs() < 1e-3 && (p.qint - s.2).abs() < 1e-4, "C18:tbl:space", "space {}: {:?} written, parsed {} {} {} {}", name, s, p.id_space, p.mult, p.area, p.qint),
            None => vfail!("C18:tbl:space-missing", "space {} not found", name),
        }
    }
    if !c.elements.is_empty() && !c.spaces.is_empty() {
        h.nontrivial(fp(c));
    }
    h.sample(|| json!({"text": text.chars().take(300).collect::<String>()}));
    Verdict::Pass
}

pub fn run_more(ctx: &Ctx) {
    ctx.rule("typed: generated buildings (1-3 storeys, 1-3 spaces each with rectangular / L / star outlines, offsets and rotations, walls by edge / TOP / BOTTOM / own polygon of every kind, windows with overhang and fins, both shade forms, bridges in the three definitions, materials in both forms, layers, constructions, glasses, frames, gaps, the three schedule kinds, conditions) printed to BDL and read with Data::new: every field against the written value or its documented legacy default. real: the 68 shipped files parsed, re-printed in a seeded different layout (quoting, spacing, alignment, comments, CRLF) and parsed again: identical blocks, attributes and typed elements. kyg / tbl: files printed from abstract rows (old/new column layouts, '.' or ',' decimals, blank lines) compared field by field.");
    ctx.run_prop("typed", ctx.tier().pick(2_000, 100_000), gb::bld, check_typed);
    let files = real_files();
    let mut cases = vec![];
    for f in &files {
        for k in 0..ctx.tier().pick(2u32, 12u32) {
            cases.push(RealCase {
                file: f.clone(),
                layout: (crate::engine::mix(ctx.seed(), f, k as u64) % 100_000) as u32,
            });
        }
    }
    ctx.run_enum("real_relayout", &cases, false, check_real);
    ctx.run_prop("kyg", ctx.tier().pick(3_000, 200_000), kyg_case, check_kyg);
    ctx.run_prop("tbl", ctx.tier().pick(2_000, 100_000), tbl_case, check_tbl);
    for c in ["kyg/decimal-comma", "kyg/decimal-point", "kyg/new-layout", "kyg/old-layout", "typed/crlf"] {
        ctx.require_class(c);
    }
    let _ = BTreeMap::<u8, u8>::new();
}

pub fn replay_one(ctx: &Ctx, doc: &ReplayDoc, s: &str) {
    use crate::engine::replay_case;
    match s {
        "typed" => replay_case::<Bld>(ctx, s, &doc.case, check_typed),
        "real_relayout" => replay_case::<RealCase>(ctx, s, &doc.case, check_real),
        "kyg" => replay_case::<KygCase>(ctx, s, &doc.case, check_kyg),
        "tbl" => replay_case::<TblCase>(ctx, s, &doc.case, check_tbl),
        _ => ctx.infra_error(format!("unknown sub {}", s)),
    }
}
