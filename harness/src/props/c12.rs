//! C12 — obstruction factors are bounded, monotone, ~1 when unobstructed, and equal the mean over
//! the July design-day hours of (sunlit fraction x beam + diffuse)/(beam + diffuse).

use proptest::prelude::*;
use serde::{Deserialize, Serialize};
use serde_json::json;

use bemodel::climatedata::{CLIMATEMETADATA, JULYRADDATA};
use bemodel::{BoundaryType, Model, Shade, Uuid, Wall, WallGeom, Window};
use climate::{radiation_for_surface, SolarRadiation};

use crate::engine::{fp, Args, CaseH, Ctx, ReplayDoc, Verdict};
use crate::gen::geom::{dec2, posed_poly, PosedPoly, P2, P3, RayD};
use crate::gen::model::{self, Params, Plan};
use crate::oracle::ray as ora;
use crate::props::envelope_props::{indicators, shipped_models};
use crate::{vensure, vfail};

fn posed(g: &WallGeom) -> Option<PosedPoly> {
    let p = g.position?;
    if g.polygon.is_empty() {
        return None;
    }
    Some(PosedPoly {
        tilt: g.tilt,
        azimuth: g.azimuth,
        position: P3 { x: p.x, y: p.y, z: p.z },
        polygon: g.polygon.iter().map(|q| P2 { x: q.x, y: q.y }).collect(),
    })
}

/// reveal quads of a set-back window from first principles, as posed polygons in the wall's frame
fn reveal_quads(wall: &PosedPoly, win: &Window) -> Vec<PosedPoly> {
    let g = &win.geometry;
    let pos = match g.position {
        Some(p) => p,
        None => return vec![],
    };
    if g.setback.abs() < 0.01 {
        return vec![];
    }
    let (x, y, w, h, s) = (pos.x as f64, pos.y as f64, g.width as f64, g.height as f64, g.setback as f64);
    let (tilt, az, wp) = (wall.tilt as f64, wall.azimuth as f64, ora::v3(&wall.position));
    let corner = |lx: f64, ly: f64, lz: f64| ora::to_global(tilt, az, wp, [lx, ly, lz]);
    let edges = [((x, y), (x + w, y)), ((x + w, y), (x + w, y + h)), ((x + w, y + h), (x, y + h)), ((x, y + h), (x, y))];
    // each quad is expressed as a posed polygon with tilt 0 / azimuth 0 is not possible in general, so we keep
    // explicit 3-D corners: a quad is stored as a "polygon" in its own plane frame built from the corners
    edges
        .iter()
        .map(|(a, b)| quad_from_corners([corner(a.0, a.1, 0.0), corner(b.0, b.1, 0.0), corner(b.0, b.1, -s), corner(a.0, a.1, -s)]))
        .collect()
}

/// a planar quad given by 3-D corners, converted to the (tilt, azimuth, position, polygon) form
fn quad_from_corners(c: [[f64; 3]; 4]) -> PosedPoly {
    let e1 = ora::sub(c[1], c[0]);
    let e2 = ora::sub(c[3], c[0]);
    let n = ora::unit(ora::cross(e1, e2));
    let tilt = n[2].clamp(-1.0, 1.0).acos().to_degrees();
    let az = if n[0].abs() < 1e-12 && n[1].abs() < 1e-12 { 0.0 } else { n[0].atan2(-n[1]).to_degrees() };
    let poly = c
        .iter()
        .map(|p| {
            let l = ora::to_local(tilt, az, c[0], *p);
            P2 { x: l[0] as f32, y: l[1] as f32 }
        })
        .collect();
    PosedPoly {
        tilt: tilt as f32,
        azimuth: az as f32,
        position: P3 { x: c[0][0] as f32, y: c[0][1] as f32, z: c[0][2] as f32 },
        polygon: poly,
    }
}

#[derive(Debug, Clone, Copy)]
pub struct Fiv {
    pub lo: f64,
    pub hi: f64,
    pub partial_hours: usize,
}

/// Expected obstruction factor of a window (None: the window has no computed factor)
pub fn expected_factor(m: &Model, win: &Window) -> Option<Fiv> {
    let wall = m.walls.iter().find(|w| w.id == win.wall)?;
    let (lat, rows) = {
        let meta = CLIMATEMETADATA.lock().unwrap_or_else(|e| e.into_inner());
        let july = JULYRADDATA.lock().unwrap_or_else(|e| e.into_inner());
        (meta.get(&m.meta.climate)?.latitude, july.get(&m.meta.climate)?.clone())
    };
    let wall_p = posed(&wall.geometry);
    let origins = m.ray_origins_for_window(win);
    let mut occl: Vec<PosedPoly> = vec![];
    for w in &m.walls {
        if w.id != wall.id && (w.bounds == BoundaryType::EXTERIOR || w.bounds == BoundaryType::ADIABATIC) {
            if let Some(p) = posed(&w.geometry) {
                occl.push(p);
            }
        }
    }
    for s in &m.shades {
        if let Some(p) = posed(&s.geometry) {
            occl.push(p);
        }
    }
    if let Some(wp) = &wall_p {
        occl.extend(reveal_quads(wp, win));
    }
    let n = wall_p.as_ref().map(|p| {
        let c = ora::to_global(p.tilt as f64, p.azimuth as f64, [0.0; 3], [0.0, 0.0, 1.0]);
        // polygon orientation decides the sign of the normal
        if ora::shoelace(&p.polygon) < 0.0 {
            ora::scale(c, -1.0)
        } else {
            c
        }
    });
    let (mut lo, mut hi) = (0.0f64, 0.0f64);
    let mut partial = 0;
    for d in &rows {
        let (az, alt) = ((d.azimuth as f64).to_radians(), (d.altitude as f64).to_radians());
        let s = [alt.cos() * az.sin(), -alt.cos() * az.cos(), alt.sin()];
        let nday = climate::nday_from_md(d.month, d.day);
        let r = radiation_for_surface(nday, d.hour, SolarRadiation { dir: d.dir, dif: d.dif }, lat, wall.geometry.tilt, wall.geometry.azimuth, 0.2);
        let (f_lo, f_hi) = match (&wall_p, &n) {
            (Some(_), Some(n)) if !origins.is_empty() => {
                let ns = ora::dot(*n, s);
                if ns < 0.01 - 1e-4 {
                    (0.0, 0.0)
                } else {
                    let (mut blocked, mut undecided) = (0usize, 0usize);
                    for o in &origins {
                        let ray = RayD {
                            o: P3 { x: o.x, y: o.y, z: o.z },
                            d: P3 { x: s[0] as f32, y: s[1] as f32, z: s[2] as f32 },
                        };
                        let mut st = 0; // 0 free, 1 undecided, 2 blocked
                        for p in &occl {
                            match ora::ray_hits(p, &ray, 1e-3) {
                                ora::Hit::Yes(_) => {
                                    st = 2;
                                    break;
                                }
                                ora::Hit::Undecided => st = st.max(1),
                                ora::Hit::No => {}
                            }
                        }
                        match st {
                            2 => blocked += 1,
                            1 => undecided += 1,
                            _ => {}
                        }
                    }
                    let nn = origins.len() as f64;
                    let mut l = 1.0 - (blocked + undecided) as f64 / nn;
                    let h = 1.0 - blocked as f64 / nn;
                    if ns < 0.01 + 1e-4 {
                        l = 0.0;
                    }
                    (l, h)
                }
            }
            _ => (1.0, 1.0),
        };
        if f_hi > 0.0 && f_lo < 1.0 {
            partial += 1;
        }
        let (dir, dif) = (r.dir as f64, r.dif as f64);
        if dir + dif <= 0.0 {
            return None;
        }
        lo += (f_lo * dir + dif) / (dir + dif);
        hi += (f_hi * dir + dif) / (dir + dif);
    }
    let nh = rows.len() as f64;
    Some(Fiv {
        lo: lo / nh,
        hi: hi / nh,
        partial_hours: partial,
    })
}

fn frame_ok(w: &Wall) -> bool {
    let p = &w.geometry.polygon;
    p.len() >= 3 && p[0].x == 0.0 && p[0].y == 0.0 && p[1].y == 0.0 && p[1].x > 0.0
}

pub fn check_model(h: &CaseH, m: &Model, exact: bool) -> Verdict {
    let ind = match indicators(m) {
        Ok(i) => i,
        Err(v) => return v,
    };
    let n_occ = m.collect_occluders().len();
    h.class(if n_occ <= 30 { "occluders/<=30" } else { "occluders/>30" });
    let mut partial_any = false;
    for win in &m.windows {
        let f = ind.props.windows.get(&win.id).and_then(|p| p.f_shobst);
        let wall = m.walls.iter().find(|w| w.id == win.wall);
        let f = match (f, wall) {
            (Some(f), Some(_)) => f as f64,
            (None, None) => continue,
            (None, Some(_)) => vfail!("C12:no-factor", "window {} on an existing wall has no obstruction factor", win.name),
            (Some(f), None) => vfail!("C12:factor-without-wall", "window {} without wall has factor {}", win.name, f),
        };
        h.evals(1);
        vensure!(f.is_finite() && (0.0..=1.0).contains(&f), "C12:out-of-bounds", "window {}: factor {} outside [0, 1]", win.name, f);
        let wall = wall.unwrap();
        if wall.geometry.position.is_none() || win.geometry.position.is_none() {
            h.class("no-position");
            vensure!(f >= 0.995, "C12:no-position-window:not-1", "window {} (wall positioned: {}, window positioned: {}) must count as fully sunlit, factor {}", win.name, wall.geometry.position.is_some(), win.geometry.position.is_some(), f);
            continue;
        }
        if !exact {
            continue;
        }
        let setback = win.geometry.setback.abs() >= 0.01;
        if setback {
            h.class("setback");
            if wall.geometry.tilt != 90.0 {
                h.class("setback/non-vertical-wall");
            }
            if !frame_ok(wall) {
                h.class("setback/frame-ambiguous(not asserted)");
                continue;
            }
        } else if !frame_ok(wall) && false {
            continue;
        }
        let e = match expected_factor(m, win) {
            Some(e) => e,
            None => continue,
        };
        if e.partial_hours > 0 {
            partial_any = true;
            h.class("partially-shaded-window");
        }
        vensure!(
            f >= e.lo - 0.0101 && f <= e.hi + 0.0101,
            "C12:factor-differs",
            "window {} (wall tilt {} azimuth {}, setback {}, {} occluders): factor {} but the mean over the July-day hours of (sunlit x beam + diffuse)/(beam + diffuse) with exact ray/polygon geometry is in [{:.4}, {:.4}]",
            win.name,
            wall.geometry.tilt,
            wall.geometry.azimuth,
            win.geometry.setback,
            n_occ,
            f,
            e.lo,
            e.hi
        );
    }
    if partial_any {
        h.nontrivial(fp(&(m.walls.len(), m.windows.len(), m.shades.len(), format!("{}", m.meta.climate))));
    }
    Verdict::Pass
}

#[derive(Clone, Debug, Serialize, Deserialize)]
pub struct SceneCase {
    pub plan: Plan,
    pub extra_shades: Vec<PosedPoly>,
    /// obstacle to add for the monotonicity relation
    pub added: PosedPoly,
    pub added_as_wall: bool,
}

fn scene() -> BoxedStrategy<SceneCase> {
    let small = model::plan(Params { open: false, uses: false, shades: 6, max_spaces: 3, overrides: false, ..Params::default() });
    (
        small,
        prop_oneof![3 => Just(vec![]), 1 => proptest::collection::vec(near_shade(), 30..90)],
        near_shade(),
        any::<bool>(),
    )
        .prop_map(|(plan, extra_shades, added, added_as_wall)| SceneCase { plan, extra_shades, added, added_as_wall })
        .boxed()
}

/// shade close to the building (so that it actually shades something)
fn near_shade() -> BoxedStrategy<PosedPoly> {
    (posed_poly(), dec2(-35.0, 35.0), dec2(-35.0, 35.0), dec2(0.0, 8.0))
        .prop_map(|(mut p, x, y, z)| {
            p.position = P3 { x, y, z };
            p
        })
        .boxed()
}

fn build_scene(c: &SceneCase) -> Model {
    let mut m = model::build(&c.plan);
    for (i, s) in c.extra_shades.iter().enumerate() {
        m.shades.push(Shade {
            id: model::uid(model::K_SHADE, 1000 + i, c.plan.salt),
            name: format!("xs{}", i),
            geometry: s.to_wallgeom(),
        });
    }
    m
}

fn check_scene(h: &CaseH, c: &SceneCase) -> Verdict {
    let m = build_scene(c);
    let v = check_model(h, &m, true);
    if v.is_fail() {
        return v;
    }
    // monotonicity: one more obstacle never increases any factor
    let mut m2 = m.clone();
    if c.added_as_wall && !m.spaces.is_empty() && !m.cons.wallcons.is_empty() {
        m2.walls.push(Wall {
            id: model::uid(model::K_WALL, 5000, c.plan.salt),
            name: "added".into(),
            bounds: BoundaryType::EXTERIOR,
            cons: m.cons.wallcons[0].id,
            space: m.spaces[0].id,
            next_to: None,
            geometry: c.added.to_wallgeom(),
        });
        h.class("added/wall");
    } else {
        m2.shades.push(Shade {
            id: model::uid(model::K_SHADE, 5000, c.plan.salt),
            name: "added".into(),
            geometry: c.added.to_wallgeom(),
        });
        h.class("added/shade");
    }
    let (i1, i2) = match (indicators(&m), indicators(&m2)) {
        (Ok(a), Ok(b)) => (a, b),
        (Err(v), _) | (_, Err(v)) => return v,
    };
    let mut decreased = false;
    for (id, p1) in &i1.props.windows {
        if let (Some(f1), Some(f2)) = (p1.f_shobst, i2.props.windows.get(id).and_then(|p| p.f_shobst)) {
            vensure!(f2 <= f1 + 1e-6, "C12:not-monotone", "adding an obstacle raises the factor of window {} from {} to {}", id, f1, f2);
            if f2 < f1 {
                decreased = true;
            }
        }
    }
    if decreased {
        h.class("added-obstacle-shades-something");
    }
    h.sample(|| json!({"walls": m.walls.len(), "windows": m.windows.len(), "shades": m.shades.len(), "zone": format!("{}", m.meta.climate), "added_as_wall": c.added_as_wall}));
    Verdict::Pass
}

/// one wall, one window, nothing else: factor >= 0.97; with a huge screen 5 cm in front: the diffuse share
#[derive(Clone, Debug, Serialize, Deserialize)]
pub struct LoneCase {
    pub zone: u8,
    pub tilt: f32,
    pub azimuth: f32,
    pub screen: bool,
}

fn lone_model(c: &LoneCase) -> Model {
    let mut m = Model::default();
    m.meta.climate = model::zone(c.zone);
    let wid = model::uid(model::K_WALL, 0, 9);
    let rect = |w: f32, hh: f32| vec![nalgebra::point![0.0, 0.0], nalgebra::point![w, 0.0], nalgebra::point![w, hh], nalgebra::point![0.0, hh]];
    m.walls.push(Wall {
        id: wid,
        name: "w".into(),
        bounds: BoundaryType::EXTERIOR,
        cons: Uuid::nil(),
        space: Uuid::nil(),
        next_to: None,
        geometry: WallGeom {
            tilt: c.tilt,
            azimuth: c.azimuth,
            position: Some(nalgebra::point![0.0, 0.0, 0.0]),
            polygon: rect(6.0, 3.0),
        },
    });
    m.windows.push(Window {
        id: model::uid(model::K_WIN, 0, 9),
        name: "v".into(),
        cons: Uuid::nil(),
        wall: wid,
        geometry: bemodel::WinGeom {
            position: Some(nalgebra::point![2.0, 1.0]),
            height: 1.2,
            width: 1.5,
            setback: 0.0,
        },
    });
    if c.screen {
        // a 200 m x 200 m screen parallel to the wall, 5 cm in front of it
        let g = &m.walls[0].geometry;
        let n = ora::to_global(g.tilt as f64, g.azimuth as f64, [0.0; 3], [0.0, 0.0, 1.0]);
        let o = ora::to_global(g.tilt as f64, g.azimuth as f64, [0.0; 3], [-100.0, -100.0, 0.05]);
        let _ = n;
        m.shades.push(Shade {
            id: model::uid(model::K_SHADE, 0, 9),
            name: "screen".into(),
            geometry: WallGeom {
                tilt: c.tilt,
                azimuth: c.azimuth,
                position: Some(nalgebra::point![o[0] as f32, o[1] as f32, o[2] as f32]),
                polygon: rect(200.0, 200.0),
            },
        });
    }
    m
}

fn check_lone(h: &CaseH, c: &LoneCase) -> Verdict {
    let m = lone_model(c);
    let ind = match indicators(&m) {
        Ok(i) => i,
        Err(v) => return v,
    };
    let f = match ind.props.windows.values().next().and_then(|p| p.f_shobst) {
        Some(f) => f as f64,
        None => vfail!("C12:no-factor", "lone window without factor ({:?})", c),
    };
    vensure!((0.0..=1.0).contains(&f), "C12:out-of-bounds", "factor {} outside [0,1] ({:?})", f, c);
    if !c.screen {
        vensure!(f >= 0.97, "C12:unobstructed-below-0.97", "a window nothing can hide has factor {} ({:?})", f, c);
        h.class("unobstructed");
    } else {
        // diffuse share only
        let e = expected_factor(&m, &m.windows[0]);
        if let Some(e) = e {
            vensure!(f >= e.lo - 0.0101 && f <= e.hi + 0.0101, "C12:hidden-window", "window hidden at every hour: factor {} but the mean diffuse share is [{:.4}, {:.4}] ({:?})", f, e.lo, e.hi, c);
            vensure!(e.hi < 0.999 || c.tilt > 90.0, "C12:oracle-self-check", "screen does not hide the window in the oracle ({:?})", c);
        }
        h.class("hidden");
    }
    h.nontrivial(fp(c));
    h.sample(|| json!(c));
    Verdict::Pass
}

fn lone_cases() -> Vec<LoneCase> {
    let mut v = vec![];
    for zone in 0..32u8 {
        for (tilt, azimuth) in [(90.0f32, 0.0f32), (90.0, 90.0), (90.0, -90.0), (90.0, 180.0), (90.0, 45.0), (90.0, -135.0), (0.0, 0.0), (30.0, 0.0), (60.0, 90.0), (120.0, 0.0)] {
            for screen in [false, true] {
                v.push(LoneCase { zone, tilt, azimuth, screen });
            }
        }
    }
    v
}

/// The window's sample points are points of the window: for a wall of any outline and pose, with the window
/// positioned in the wall polygon's frame (origin at the first corner, X along the first edge, as documented on
/// WallGeom::to_polygon_coords_matrix), every point the library samples lies in the set-back plane, inside the
/// window's rectangle, and their centroid is the rectangle's centre.
fn check_sample_points(h: &CaseH, c: &super::c13b::RevealCase) -> Verdict {
    let (m, _wall_id, _win_id) = super::c13b::one_window_model(c);
    let win = &m.windows[0];
    let pts = m.ray_origins_for_window(win);
    if c.wall.polygon.len() < 3 {
        return Verdict::Pass;
    }
    vensure!(!pts.is_empty(), "C12:sample-points:none", "a positioned window on a positioned wall has no sample points");
    let (tilt, az, wp) = (c.wall.tilt as f64, c.wall.azimuth as f64, ora::v3(&c.wall.position));
    let p0 = [c.wall.polygon[0].x as f64, c.wall.polygon[0].y as f64];
    let p1 = [c.wall.polygon[1].x as f64, c.wall.polygon[1].y as f64];
    let e = [p1[0] - p0[0], p1[1] - p0[1]];
    let el = (e[0] * e[0] + e[1] * e[1]).sqrt();
    if el < 1e-6 {
        return Verdict::Pass;
    }
    let (ex, ey) = (e[0] / el, e[1] / el);
    let (x0, y0, w, hh, sb) = (c.x as f64, c.y as f64, c.w as f64, c.h as f64, c.setback as f64);
    // the set-back plane only applies when the library generates reveals (|setback| >= 0.01 is its own rule for those);
    // the sample points are always placed at -setback
    let tol = 2e-3 * (1.0 + ora::norm(wp) / 10.0 + (x0.abs() + y0.abs() + w + hh) / 10.0);
    let (mut cx, mut cy) = (0.0, 0.0);
    for p in &pts {
        let l = ora::to_local(tilt, az, wp, [p.x as f64, p.y as f64, p.z as f64]);
        vensure!((l[2] + sb).abs() <= tol, "C12:sample-points:off-plane", "sample point {:?} is {} m off the set-back plane (setback {})", p, l[2] + sb, sb);
        // wall-local -> polygon frame
        let d = [l[0] - p0[0], l[1] - p0[1]];
        let (u, v) = (d[0] * ex + d[1] * ey, -d[0] * ey + d[1] * ex);
        vensure!(
            u >= x0 - tol && u <= x0 + w + tol && v >= y0 - tol && v <= y0 + hh + tol,
            "C12:sample-points:outside-window",
            "sample point at ({:.3}, {:.3}) in the wall polygon's frame lies outside the window [{}, {}] x [{}, {}] (polygon starts at ({}, {}), first edge direction ({:.3}, {:.3}))",
            u, v, x0, x0 + w, y0, y0 + hh, p0[0], p0[1], ex, ey
        );
        cx += u;
        cy += v;
    }
    let n = pts.len() as f64;
    vensure!((cx / n - (x0 + w / 2.0)).abs() <= tol && (cy / n - (y0 + hh / 2.0)).abs() <= tol, "C12:sample-points:not-centred", "centroid of the sample points ({:.3}, {:.3}) is not the window centre ({:.3}, {:.3})", cx / n, cy / n, x0 + w / 2.0, y0 + hh / 2.0);
    h.evals(pts.len() as u64);
    let off_origin = p0[0].abs() > 1e-6 || p0[1].abs() > 1e-6;
    let turned = ey.abs() > 1e-6 || ex < 0.0;
    h.class(match (off_origin, turned) {
        (false, false) => "polygon/origin-start,+x",
        (true, false) => "polygon/offset-start,+x",
        (false, true) => "polygon/origin-start,turned",
        (true, true) => "polygon/offset-start,turned",
    });
    if off_origin && turned {
        h.nontrivial(fp(c));
    }
    Verdict::Pass
}

pub fn run(args: &Args) -> ! {
    let ctx = Ctx::new("C12", "exploration", args);
    ctx.rule("scenes: generated buildings of 1-3 prism spaces (rotated footprints, all orientations and odd tilts, windows with and without setback / position) with 0-6 random shades, optionally 30-90 more shades near the building (so that the acceleration structure runs below, at and above its leaf size), x zones; oracle: per July design-day hour, exact f64 ray/polygon tests (1 mm band => interval) from the library's sample points towards the sun against other exterior/adiabatic walls, shades and the window's own reveal quads built from first principles, weighted with radiation_for_surface on the window plane; bounds; windows without position = 1; metamorphic: one more wall or shade never raises any factor. lone: 32 zones x 10 poses x {nothing, huge screen 5 cm in front} (exhaustive): >= 0.97 / diffuse share only. shipped models: bounds only (hundreds of obstacles: exact oracle on a sample of windows in the thorough tier). Non-trivial: scene with a window that is partially shaded at some hour.");
    ctx.assume("sample points, July tables and radiation_for_surface are inputs here (C20 checks the last two)");
    ctx.replay_regressions(replay_one);
    let real = shipped_models();
    ctx.run_enum("shipped", &real.iter().map(|(n, _)| n.clone()).collect::<Vec<_>>(), true, |h, name| {
        let m = &real.iter().find(|(n, _)| n == name).unwrap().1;
        h.nontrivial(fp(name));
        check_model(h, m, false)
    });
    ctx.run_enum("lone", &lone_cases(), true, check_lone);
    ctx.run_prop("scenes", ctx.tier().pick(8_000, 100_000), scene, check_scene);
    ctx.rule("sample_points: walls of any outline (rectangles, star polygons: first corner anywhere, first edge in any direction) and pose with one window: the library's sample points lie in the set-back plane, inside the window's rectangle placed in the wall polygon's frame, and are centred on it. Non-trivial: polygon that neither starts at the origin nor runs along +x first.");
    ctx.run_prop("sample_points", ctx.tier().pick(60_000, 1_000_000), super::c13b::reveal_case, check_sample_points);
    ctx.require_class("sample_points/polygon/offset-start,turned");
    for c in ["scenes/occluders/<=30", "scenes/occluders/>30", "scenes/setback", "scenes/no-position", "scenes/partially-shaded-window", "scenes/added/wall", "scenes/added/shade", "scenes/added-obstacle-shades-something"] {
        ctx.require_class(c);
    }
    ctx.finish()
}

pub fn replay_one(ctx: &Ctx, doc: &ReplayDoc) {
    use crate::engine::replay_case;
    match doc.sub.as_str() {
        "scenes" => replay_case::<SceneCase>(ctx, &doc.sub, &doc.case, check_scene),
        "lone" => replay_case::<LoneCase>(ctx, &doc.sub, &doc.case, check_lone),
        "sample_points" => replay_case::<super::c13b::RevealCase>(ctx, &doc.sub, &doc.case, check_sample_points),
        s => ctx.infra_error(format!("unknown sub {}", s)),
    }
}
