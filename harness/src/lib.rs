//! Engine shared by all property checks: deterministic sharded proptest runs,
//! evidence writer, known-findings matcher, replay files, panic capture and a
//! subprocess worker pool for subjects that may crash, hang or poison state.

pub mod engine;
pub mod fuzz;
pub mod gen;
pub mod oracle;
pub mod props;
pub mod util;
