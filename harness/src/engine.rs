//! Check engine. See DESIGN.md section 1.

use std::cell::RefCell;
use std::collections::{BTreeMap, HashSet};
use std::io::{BufRead, BufReader, Write};
use std::panic::{self, AssertUnwindSafe};
use std::path::{Path, PathBuf};
use std::process::{Child, ChildStdin, Command, Stdio};
use std::sync::mpsc::{channel, Receiver, RecvTimeoutError};
use std::sync::{Mutex, Once};
use std::time::{Duration, Instant};

use proptest::strategy::Strategy;
use proptest::test_runner::{Config, RngSeed, TestCaseError, TestError, TestRunner};
use serde::{de::DeserializeOwned, Deserialize, Serialize};
use serde_json::{json, Value};

/// root of the verification tree (known findings, regressions, evidence, replays, fuzz crate): /verif, or
/// $VERIF_DIR when a snapshot of it is run elsewhere (`vp run`)
pub fn verif_dir() -> PathBuf {
    std::env::var("VERIF_DIR").map(PathBuf::from).unwrap_or_else(|_| PathBuf::from("/verif"))
}
/// scratch and build directory: <verif_dir>/target, or $VERIF_TARGET
pub fn target_dir() -> PathBuf {
    std::env::var("VERIF_TARGET").map(PathBuf::from).unwrap_or_else(|_| verif_dir().join("target"))
}
pub const REPO_DIR: &str = "/repo";
pub const NTHREADS: usize = 16;
/// wall-clock budget for shrinking one failure
pub const SHRINK_BUDGET_S: u64 = 90;

// ---------------------------------------------------------------- arguments

#[derive(Clone, Copy, Debug, PartialEq, Eq)]
pub enum Tier {
    Quick,
    Thorough,
}

impl Tier {
    pub fn as_str(&self) -> &'static str {
        match self {
            Tier::Quick => "quick",
            Tier::Thorough => "thorough",
        }
    }
    /// pick by tier
    pub fn pick<T>(&self, quick: T, thorough: T) -> T {
        match self {
            Tier::Quick => quick,
            Tier::Thorough => thorough,
        }
    }
}

#[derive(Clone, Debug)]
pub struct Args {
    pub property: String,
    pub tier: Tier,
    pub seed: u64,
    pub replay: Option<PathBuf>,
    pub worker: Option<String>,
    pub only: Option<String>,
    /// strict = no known-finding suppression (used for replay / sensitivity runs)
    pub strict: bool,
}

pub fn parse_args() -> Args {
    let argv: Vec<String> = std::env::args().collect();
    let mut a = Args {
        property: String::new(),
        tier: match std::env::var("VERIF_TIER").as_deref() {
            Ok("thorough") => Tier::Thorough,
            _ => Tier::Quick,
        },
        seed: std::env::var("VERIF_SEED")
            .ok()
            .and_then(|s| s.trim().parse::<i64>().ok())
            .map(|v| v as u64)
            .unwrap_or(0),
        replay: None,
        worker: None,
        only: None,
        strict: std::env::var("VERIF_STRICT").is_ok(),
    };
    let mut i = 1;
    while i < argv.len() {
        match argv[i].as_str() {
            "--tier" => {
                i += 1;
                a.tier = if argv.get(i).map(String::as_str) == Some("thorough") {
                    Tier::Thorough
                } else {
                    Tier::Quick
                };
            }
            "quick" => a.tier = Tier::Quick,
            "thorough" => a.tier = Tier::Thorough,
            "--seed" => {
                i += 1;
                a.seed = argv.get(i).and_then(|s| s.parse::<i64>().ok()).unwrap_or(0) as u64;
            }
            "--replay" => {
                i += 1;
                a.replay = argv.get(i).map(PathBuf::from);
            }
            "--worker" => {
                i += 1;
                a.worker = argv.get(i).cloned();
            }
            "--only" => {
                i += 1;
                a.only = argv.get(i).cloned();
            }
            "--strict" => a.strict = true,
            s if a.property.is_empty() && !s.starts_with('-') => a.property = s.to_uppercase(),
            _ => {}
        }
        i += 1;
    }
    a
}

// ---------------------------------------------------------------- hashing

pub fn fnv64(bytes: &[u8]) -> u64 {
    let mut h: u64 = 0xcbf29ce484222325;
    for b in bytes {
        h ^= *b as u64;
        h = h.wrapping_mul(0x100000001b3);
    }
    h
}

pub fn fp_str(s: &str) -> u64 {
    fnv64(s.as_bytes())
}

pub fn fp<T: Serialize>(v: &T) -> u64 {
    fnv64(serde_json::to_string(v).unwrap_or_default().as_bytes())
}

pub fn mix(seed: u64, salt: &str, shard: u64) -> u64 {
    let mut h = fnv64(salt.as_bytes()) ^ seed.wrapping_mul(0x9E3779B97F4A7C15);
    h ^= shard.wrapping_mul(0xD6E8FEB86659FD93);
    h ^= h >> 32;
    h = h.wrapping_mul(0xD6E8FEB86659FD93);
    h ^= h >> 29;
    h
}

// ---------------------------------------------------------------- panics

#[derive(Clone, Debug, Default, Serialize, Deserialize)]
pub struct PanicInfo {
    pub file: String,
    pub line: u32,
    pub func: String,
    pub msg: String,
}

impl PanicInfo {
    /// line-free signature: file + masked head of the message. The enclosing function (taken from the
    /// backtrace, which is not always symbolised) is reported in the text but is not part of the key.
    pub fn signature(&self) -> String {
        format!("panic@{}:{}", self.file, mask_msg(&self.msg))
    }
}

/// Masks numbers, quoted strings and identifiers that vary with the input
pub fn mask_msg(msg: &str) -> String {
    let first = msg.lines().next().unwrap_or("");
    let mut out = String::new();
    let mut chars = first.chars().peekable();
    let mut in_quote: Option<char> = None;
    while let Some(c) = chars.next() {
        if let Some(q) = in_quote {
            if c == q {
                in_quote = None;
                out.push('S');
            }
            continue;
        }
        if c == '"' || c == '\'' || c == '`' {
            in_quote = Some(c);
            continue;
        }
        if c.is_ascii_digit() {
            while let Some(n) = chars.peek() {
                if n.is_ascii_digit() || *n == '.' {
                    chars.next();
                } else {
                    break;
                }
            }
            out.push('N');
            continue;
        }
        out.push(c);
    }
    // identifiers that come from the input (element names, block types) vary with the case: keep only
    // the first words of the message, which name the failed operation
    let words: Vec<&str> = out.split_whitespace().take(4).collect();
    words.join(" ")
}

thread_local! {
    static LAST_PANIC: RefCell<Option<PanicInfo>> = const { RefCell::new(None) };
}

static HOOK: Once = Once::new();

/// Installs a silent panic hook that records location, message and the first
/// frame inside the repository's crates.
pub fn install_panic_hook() {
    HOOK.call_once(|| {
        panic::set_hook(Box::new(|info| {
            let (file, line) = info
                .location()
                .map(|l| (l.file().to_string(), l.line()))
                .unwrap_or_default();
            let msg = if let Some(s) = info.payload().downcast_ref::<&str>() {
                s.to_string()
            } else if let Some(s) = info.payload().downcast_ref::<String>() {
                s.clone()
            } else {
                "<non-string panic payload>".to_string()
            };
            let bt = std::backtrace::Backtrace::force_capture().to_string();
            let mut func = String::new();
            for l in bt.lines() {
                let l = l.trim();
                // frame lines look like "12: bemodel::energy::...::h1234"
                let name = match l.split_once(": ") {
                    Some((n, rest)) if n.chars().all(|c| c.is_ascii_digit()) => rest,
                    _ => continue,
                };
                let is_repo = ["bemodel::", "hulc::", "climate::", "hulc2model::"]
                    .iter()
                    .any(|p| name.starts_with(p) || name.contains(&format!("<{}", p)) || name.contains(&format!(" {}", p)));
                if is_repo {
                    let mut n = name.to_string();
                    // strip hash suffix and closures
                    if let Some(pos) = n.rfind("::h") {
                        if n[pos + 3..].chars().all(|c| c.is_ascii_hexdigit()) {
                            n.truncate(pos);
                        }
                    }
                    while n.ends_with("::{{closure}}") {
                        n.truncate(n.len() - "::{{closure}}".len());
                    }
                    func = n;
                    break;
                }
            }
            let file = file
                .trim_start_matches("/repo/")
                .to_string();
            // shorten registry paths
            let file = match file.find("/registry/src/") {
                Some(p) => {
                    let rest = &file[p + "/registry/src/".len()..];
                    rest.split_once('/').map(|x| x.1.to_string()).unwrap_or(file.clone())
                }
                None => file,
            };
            LAST_PANIC.with(|p| {
                *p.borrow_mut() = Some(PanicInfo {
                    file,
                    line,
                    func,
                    msg,
                })
            });
        }));
    });
}

/// Runs f, returning Err(PanicInfo) when it panics.
pub fn catch<R>(f: impl FnOnce() -> R) -> Result<R, PanicInfo> {
    install_panic_hook();
    LAST_PANIC.with(|p| *p.borrow_mut() = None);
    match panic::catch_unwind(AssertUnwindSafe(f)) {
        Ok(r) => Ok(r),
        Err(_) => Err(LAST_PANIC
            .with(|p| p.borrow_mut().take())
            .unwrap_or_default()),
    }
}

// ---------------------------------------------------------------- verdicts

#[derive(Clone, Debug)]
pub enum Verdict {
    Pass,
    Fail { sig: String, what: String },
}

impl Verdict {
    pub fn fail(sig: impl Into<String>, what: impl Into<String>) -> Verdict {
        Verdict::Fail {
            sig: sig.into(),
            what: what.into(),
        }
    }
    pub fn from_panic(prefix: &str, p: &PanicInfo) -> Verdict {
        Verdict::Fail {
            sig: format!("{}:{}", prefix, p.signature()),
            what: format!("panic at {}:{} in {}: {}", p.file, p.line, p.func, p.msg.lines().next().unwrap_or("")),
        }
    }
    pub fn is_fail(&self) -> bool {
        matches!(self, Verdict::Fail { .. })
    }
}

#[macro_export]
macro_rules! vfail {
    ($sig:expr, $($arg:tt)*) => {
        return $crate::engine::Verdict::Fail { sig: ($sig).to_string(), what: format!($($arg)*) }
    };
}

#[macro_export]
macro_rules! vensure {
    ($cond:expr, $sig:expr, $($arg:tt)*) => {
        if !($cond) {
            return $crate::engine::Verdict::Fail { sig: ($sig).to_string(), what: format!($($arg)*) };
        }
    };
}

// ---------------------------------------------------------------- known findings

#[derive(Clone, Debug, Serialize, Deserialize)]
pub struct KnownFinding {
    pub property: String,
    pub signature: String,
    pub what: String,
    pub status: String,
    #[serde(default)]
    pub commit: Option<String>,
}

fn load_known(property: &str) -> Vec<KnownFinding> {
    let p = verif_dir().join("known_findings.json");
    let txt = std::fs::read_to_string(p).unwrap_or_else(|_| "[]".into());
    let all: Vec<KnownFinding> = serde_json::from_str(&txt).unwrap_or_default();
    all.into_iter().filter(|k| k.property == property).collect()
}

// ---------------------------------------------------------------- context

#[derive(Default)]
struct Local {
    evals: u64,
    nontrivial: HashSet<u64>,
    nontrivial_counted: u64,
    classes: BTreeMap<String, u64>,
    samples: Vec<Value>,
    frozen: bool,
}

/// Handle given to property closures for counting
pub struct CaseH<'a> {
    local: &'a RefCell<Local>,
    pub strict: bool,
    ctx: &'a Ctx,
}

impl<'a> CaseH<'a> {
    /// True when `sig` is an open known finding (counted as excluded): the property may then go on
    /// checking the rest of the case instead of stopping at the known failure.
    pub fn known(&self, sig: &str) -> bool {
        if self.ctx.is_known_open(sig) {
            if !self.local.borrow().frozen {
                *self
                    .ctx
                    .inner
                    .lock()
                    .unwrap()
                    .known_hits
                    .entry(sig.to_string())
                    .or_insert(0) += 1;
            }
            true
        } else {
            false
        }
    }
    pub fn tier(&self) -> Tier {
        self.ctx.args.tier
    }
    pub fn class(&self, name: &str) {
        let mut l = self.local.borrow_mut();
        if !l.frozen {
            *l.classes.entry(name.to_string()).or_insert(0) += 1;
        }
    }
    pub fn class_n(&self, name: &str, n: u64) {
        let mut l = self.local.borrow_mut();
        if !l.frozen && n > 0 {
            *l.classes.entry(name.to_string()).or_insert(0) += n;
        }
    }
    pub fn nontrivial(&self, fingerprint: u64) {
        let mut l = self.local.borrow_mut();
        if !l.frozen {
            l.nontrivial.insert(fingerprint);
        }
    }
    /// non-trivial cases counted by an external engine (fuzz target counters) that cannot hand over fingerprints
    pub fn nontrivial_n(&self, n: u64) {
        let mut l = self.local.borrow_mut();
        if !l.frozen {
            l.nontrivial_counted += n;
        }
    }
    /// extra evaluations inside one generated case (e.g. rays per scene)
    pub fn evals(&self, n: u64) {
        let mut l = self.local.borrow_mut();
        if !l.frozen {
            l.evals += n;
        }
    }
    pub fn sample(&self, f: impl FnOnce() -> Value) {
        let mut l = self.local.borrow_mut();
        if !l.frozen && l.samples.len() < 2 {
            let v = f();
            l.samples.push(v);
        }
    }
}

#[derive(Clone, Debug, Serialize)]
pub struct Violation {
    pub sub: String,
    pub signature: String,
    pub what: String,
    pub replay: String,
}

#[derive(Default)]
struct Inner {
    evaluations: u64,
    nontrivial: HashSet<u64>,
    nontrivial_counted: u64,
    classes: BTreeMap<String, u64>,
    samples: Vec<Value>,
    subs: BTreeMap<String, Value>,
    violations: Vec<Violation>,
    known_hits: BTreeMap<String, u64>,
    rules: Vec<String>,
    assumptions: Vec<String>,
    exhaustive_subs: Vec<String>,
    budget_exhausted: bool,
    required_classes: Vec<String>,
    notes: Vec<String>,
    infra_errors: Vec<String>,
}

pub struct Ctx {
    pub id: String,
    pub level: &'static str,
    pub args: Args,
    pub start: Instant,
    known: Vec<KnownFinding>,
    inner: Mutex<Inner>,
}

impl Ctx {
    pub fn new(id: &str, level: &'static str, args: &Args) -> Ctx {
        install_panic_hook();
        Ctx {
            id: id.to_string(),
            level,
            args: args.clone(),
            start: Instant::now(),
            known: load_known(id),
            inner: Mutex::new(Inner::default()),
        }
    }
    pub fn tier(&self) -> Tier {
        self.args.tier
    }
    pub fn seed(&self) -> u64 {
        self.args.seed
    }
    pub fn wants(&self, sub: &str) -> bool {
        match &self.args.only {
            Some(o) => o.split(',').any(|x| x == sub),
            None => true,
        }
    }
    pub fn rule(&self, s: &str) {
        self.inner.lock().unwrap().rules.push(s.to_string());
    }
    pub fn assume(&self, s: &str) {
        self.inner.lock().unwrap().assumptions.push(s.to_string());
    }
    pub fn note(&self, s: String) {
        self.inner.lock().unwrap().notes.push(s);
    }
    pub fn infra_error(&self, s: String) {
        self.inner.lock().unwrap().infra_errors.push(s);
    }
    pub fn require_class(&self, s: &str) {
        self.inner.lock().unwrap().required_classes.push(s.to_string());
    }
    pub fn budget_exhausted(&self) {
        self.inner.lock().unwrap().budget_exhausted = true;
    }
    pub fn class_total(&self, name: &str) -> u64 {
        self.inner.lock().unwrap().classes.get(name).copied().unwrap_or(0)
    }

    pub fn open_known_signatures(&self) -> Vec<String> {
        if self.args.strict {
            return vec![];
        }
        self.known.iter().filter(|k| k.status == "open").map(|k| k.signature.clone()).collect()
    }

    /// counts `n` cases excluded as the open known finding `sig` by an external engine
    pub fn known_hits_add(&self, sig: &str, n: u64) {
        if n > 0 {
            *self.inner.lock().unwrap().known_hits.entry(sig.to_string()).or_insert(0) += n;
        }
    }

    fn is_known_open(&self, sig: &str) -> bool {
        !self.args.strict
            && self
                .known
                .iter()
                .any(|k| k.status == "open" && k.signature == sig)
    }

    fn merge(&self, sub: &str, l: Local, exhaustive: bool) {
        let mut i = self.inner.lock().unwrap();
        i.evaluations += l.evals;
        i.nontrivial_counted += l.nontrivial_counted;
        let e = i
            .subs
            .entry(sub.to_string())
            .or_insert_with(|| json!({"evaluations": 0u64, "nontrivial": 0u64}));
        e["evaluations"] = json!(e["evaluations"].as_u64().unwrap_or(0) + l.evals);
        e["nontrivial"] = json!(e["nontrivial"].as_u64().unwrap_or(0) + l.nontrivial.len() as u64 + l.nontrivial_counted);
        if exhaustive {
            e["exhaustive"] = json!(true);
            if !i.exhaustive_subs.iter().any(|s| s == sub) {
                i.exhaustive_subs.push(sub.to_string());
            }
        }
        for h in l.nontrivial {
            i.nontrivial.insert(h ^ fnv64(sub.as_bytes()));
        }
        for (k, v) in l.classes {
            *i.classes.entry(format!("{}/{}", sub, k)).or_insert(0) += v;
        }
        let have = i.samples.iter().filter(|s| s["sub"] == sub).count();
        for s in l.samples.into_iter().take(2usize.saturating_sub(have)) {
            i.samples.push(json!({"sub": sub, "case": s}));
        }
    }

    /// Registers a failure found outside run_prop/run_enum. Returns true when it is a violation
    /// (false when suppressed as an open known finding).
    pub fn report<T: Serialize>(&self, sub: &str, sig: &str, what: &str, case: &T) -> bool {
        if self.is_known_open(sig) {
            *self
                .inner
                .lock()
                .unwrap()
                .known_hits
                .entry(sig.to_string())
                .or_insert(0) += 1;
            return false;
        }
        let mut i = self.inner.lock().unwrap();
        if i.violations.iter().any(|v| v.signature == sig) {
            return true; // one replay per root signature
        }
        let case_v = serde_json::to_value(case).unwrap_or(Value::Null);
        let doc = json!({
            "property": self.id,
            "sub": sub,
            "signature": sig,
            "what": what,
            "seed": self.args.seed,
            "tier": self.args.tier.as_str(),
            "case": case_v,
        });
        let dir = verif_dir().join("replays").join(&self.id);
        let _ = std::fs::create_dir_all(&dir);
        let name = format!("{:016x}.json", fnv64(format!("{}{}{}", sub, sig, doc["case"]).as_bytes()));
        let path = dir.join(name);
        let _ = std::fs::write(&path, serde_json::to_string_pretty(&doc).unwrap_or_default());
        i.violations.push(Violation {
            sub: sub.to_string(),
            signature: sig.to_string(),
            what: what.to_string(),
            replay: path.to_string_lossy().to_string(),
        });
        true
    }

    /// Property over generated cases, sharded over threads; each shard has its own deterministic
    /// runner. `f` must be a pure function of the case.
    pub fn run_prop<S, M, F>(&self, sub: &str, cases: u64, mk: M, f: F)
    where
        S: Strategy,
        M: Fn() -> S + Sync,
        S::Value: Serialize + Clone + std::fmt::Debug,
        F: Fn(&CaseH, &S::Value) -> Verdict + Send + Sync,
    {
        self.run_prop_threads(sub, cases, NTHREADS, mk, f)
    }

    pub fn run_prop_threads<S, M, F>(&self, sub: &str, cases: u64, threads: usize, mk: M, f: F)
    where
        S: Strategy,
        M: Fn() -> S + Sync,
        S::Value: Serialize + Clone + std::fmt::Debug,
        F: Fn(&CaseH, &S::Value) -> Verdict + Send + Sync,
    {
        if !self.wants(sub) || cases == 0 {
            return;
        }
        let threads = threads.max(1).min(cases as usize);
        let f = &f;
        let mk = &mk;
        std::thread::scope(|scope| {
            for shard in 0..threads {
                let n = cases / threads as u64 + u64::from((shard as u64) < cases % threads as u64);
                scope.spawn(move || {
                    let local = RefCell::new(Local::default());
                    let first_fail: RefCell<Option<(String, String)>> = RefCell::new(None);
                    // shrinking is bounded in time: after the budget every candidate "passes", so the
                    // runner settles on the smallest failing case found so far
                    let shrink_deadline: RefCell<Option<Instant>> = RefCell::new(None);
                    let cfg = Config {
                        cases: n as u32,
                        failure_persistence: None,
                        rng_seed: RngSeed::Fixed(mix(self.args.seed, &format!("{}/{}", self.id, sub), shard as u64)),
                        max_shrink_iters: 2000,
                        max_global_rejects: 1_000_000,
                        max_local_rejects: 1_000_000,
                        verbose: 0,
                        ..Config::default()
                    };
                    let mut runner = TestRunner::new(cfg);
                    let strategy = mk();
                    let res = runner.run(&strategy, |v| {
                        let h = CaseH {
                            local: &local,
                            strict: self.args.strict,
                            ctx: self,
                        };
                        {
                            let mut l = local.borrow_mut();
                            if !l.frozen {
                                l.evals += 1;
                            }
                        }
                        if let Some(d) = *shrink_deadline.borrow() {
                            if Instant::now() > d {
                                return Ok(());
                            }
                        }
                        let verdict = match catch(|| f(&h, &v)) {
                            Ok(v) => v,
                            Err(p) => Verdict::from_panic("harness-or-subject", &p),
                        };
                        match verdict {
                            Verdict::Pass => Ok(()),
                            Verdict::Fail { sig, what } => {
                                if self.is_known_open(&sig) {
                                    if !local.borrow().frozen {
                                        *self
                                            .inner
                                            .lock()
                                            .unwrap()
                                            .known_hits
                                            .entry(sig.clone())
                                            .or_insert(0) += 1;
                                    }
                                    return Ok(());
                                }
                                // while shrinking, only follow the same root signature
                                let mut ff = first_fail.borrow_mut();
                                match &*ff {
                                    None => {
                                        *ff = Some((sig.clone(), what.clone()));
                                        local.borrow_mut().frozen = true;
                                        *shrink_deadline.borrow_mut() = Some(Instant::now() + Duration::from_secs(SHRINK_BUDGET_S));
                                        Err(TestCaseError::fail(sig))
                                    }
                                    Some((s0, _)) if *s0 == sig => {
                                        *ff = Some((sig.clone(), what.clone()));
                                        Err(TestCaseError::fail(sig))
                                    }
                                    Some(_) => Ok(()),
                                }
                            }
                        }
                    });
                    if let Err(TestError::Fail(_, value)) = &res {
                        let (sig, what) = first_fail.borrow().clone().unwrap_or_default();
                        self.report(sub, &sig, &what, value);
                    } else if let Err(TestError::Abort(r)) = &res {
                        self.infra_error(format!("{}: proptest aborted: {}", sub, r));
                    }
                    self.merge(sub, local.into_inner(), false);
                });
            }
        });
    }

    /// Property over an explicit list of cases (enumeration), sharded by index.
    pub fn run_enum<T, F>(&self, sub: &str, cases: &[T], exhaustive: bool, f: F)
    where
        T: Serialize + Sync,
        F: Fn(&CaseH, &T) -> Verdict + Send + Sync,
    {
        if !self.wants(sub) || cases.is_empty() {
            return;
        }
        let threads = NTHREADS.min(cases.len());
        let f = &f;
        std::thread::scope(|scope| {
            for shard in 0..threads {
                scope.spawn(move || {
                    let local = RefCell::new(Local::default());
                    let mut i = shard;
                    while i < cases.len() {
                        let c = &cases[i];
                        let h = CaseH {
                            local: &local,
                            strict: self.args.strict,
                            ctx: self,
                        };
                        local.borrow_mut().evals += 1;
                        let verdict = match catch(|| f(&h, c)) {
                            Ok(v) => v,
                            Err(p) => Verdict::from_panic("harness-or-subject", &p),
                        };
                        if let Verdict::Fail { sig, what } = verdict {
                            self.report(sub, &sig, &what, c);
                        }
                        i += threads;
                    }
                    self.merge(sub, local.into_inner(), exhaustive);
                });
            }
        });
    }

    /// Single-threaded counting scope for hand-written loops
    pub fn scope<R>(&self, sub: &str, exhaustive: bool, f: impl FnOnce(&CaseH) -> R) -> R {
        let local = RefCell::new(Local::default());
        let r = {
            let h = CaseH {
                local: &local,
                strict: self.args.strict,
                ctx: self,
            };
            f(&h)
        };
        self.merge(sub, local.into_inner(), exhaustive);
        r
    }

    /// Replays every saved regression case of this property (strict: known findings are not
    /// suppressed for `fixed` entries anyway; open ones still are) before the generated search.
    pub fn replay_regressions(&self, f: impl Fn(&Ctx, &ReplayDoc)) {
        if self.args.only.is_some() {
            return;
        }
        let dir = verif_dir().join("regressions").join(&self.id);
        let mut files: Vec<PathBuf> = std::fs::read_dir(&dir)
            .map(|rd| rd.flatten().map(|e| e.path()).filter(|p| p.extension().map_or(false, |x| x == "json")).collect())
            .unwrap_or_default();
        files.sort();
        let mut n = 0u64;
        for p in files {
            match load_replay(&p) {
                Ok(doc) => {
                    f(self, &doc);
                    n += 1;
                }
                Err(e) => self.infra_error(format!("regression file {} unreadable: {}", p.display(), e)),
            }
        }
        self.note(format!("replayed {} saved regression cases", n));
    }

    pub fn n_violations(&self) -> usize {
        self.inner.lock().unwrap().violations.len()
    }

    /// Writes evidence, prints the verdict lines and exits.
    pub fn finish(&self) -> ! {
        let wall = self.start.elapsed().as_secs_f64();
        let i = self.inner.lock().unwrap();
        let mut missing = vec![];
        if self.args.only.is_none() {
            for rc in &i.required_classes {
                if i.classes.get(rc).copied().unwrap_or(0) == 0 {
                    missing.push(rc.clone());
                }
            }
        }
        let known_excluded: u64 = i.known_hits.values().sum();
        let coverage = json!({
            "evaluations": i.evaluations,
            "distinct_nontrivial": i.nontrivial.len() as u64 + i.nontrivial_counted,
            "rule": i.rules.join(" | "),
            "samples": i.samples,
            "classes": i.classes,
            "subchecks": i.subs,
            "exhaustive": false,
            "exhaustive_subdomains": i.exhaustive_subs,
            "known_excluded": known_excluded,
            "known_hits": i.known_hits,
            "budget_exhausted": i.budget_exhausted,
            "missing_required_classes": missing,
            "notes": i.notes,
            "violations": i.violations,
        });
        let ev = json!({
            "property_id": self.id,
            "tier": self.args.tier.as_str(),
            "seed": self.args.seed as i64,
            "level": self.level,
            "coverage": coverage,
            "assumptions": i.assumptions,
            "wall_s": wall,
            "violations": i.violations.len(),
        });
        if self.args.only.is_some() && self.args.replay.is_none() {
            // partial runs (--only) leave their evidence outside the committed directory
            let dir = target_dir().join("partial-evidence");
            let _ = std::fs::create_dir_all(&dir);
            let _ = std::fs::write(dir.join(format!("{}.json", self.id)), serde_json::to_string_pretty(&ev).unwrap());
        }
        if self.args.only.is_none() && self.args.replay.is_none() {
            let dir = verif_dir().join("evidence");
            let _ = std::fs::create_dir_all(&dir);
            let _ = std::fs::write(
                dir.join(format!("{}.json", self.id)),
                serde_json::to_string_pretty(&ev).unwrap(),
            );
        }
        for k in &self.known {
            if k.status == "open" {
                println!(
                    "KNOWN-FINDING: property={} {} [signature={} hits={}]",
                    self.id,
                    k.what,
                    k.signature,
                    i.known_hits.get(&k.signature).copied().unwrap_or(0)
                );
            }
        }
        for v in &i.violations {
            println!("VIOLATION property={} replay={}", self.id, v.replay);
            println!("  sub={} signature={}\n  {}", v.sub, v.signature, v.what);
        }
        println!(
            "{} {} seed={} evaluations={} distinct_nontrivial={} violations={} known_excluded={} wall={:.1}s",
            self.id,
            self.args.tier.as_str(),
            self.args.seed,
            i.evaluations,
            i.nontrivial.len() as u64 + i.nontrivial_counted,
            i.violations.len(),
            known_excluded,
            wall
        );
        if !i.violations.is_empty() {
            std::process::exit(1);
        }
        if !i.infra_errors.is_empty() {
            for e in &i.infra_errors {
                eprintln!("INFRA: {}", e);
            }
            std::process::exit(2);
        }
        if !missing.is_empty() {
            eprintln!("INFRA: required classes never generated: {:?}", missing);
            std::process::exit(2);
        }
        std::process::exit(0);
    }
}

// ---------------------------------------------------------------- replay files

#[derive(Debug, Deserialize)]
pub struct ReplayDoc {
    pub property: String,
    pub sub: String,
    #[serde(default)]
    pub signature: String,
    pub case: Value,
}

pub fn load_replay(path: &Path) -> Result<ReplayDoc, String> {
    let txt = std::fs::read_to_string(path).map_err(|e| e.to_string())?;
    serde_json::from_str(&txt).map_err(|e| e.to_string())
}

/// Helper for replay dispatchers
pub fn replay_case<T: DeserializeOwned>(ctx: &Ctx, sub: &str, case: &Value, f: impl Fn(&CaseH, &T) -> Verdict)
where
    T: Serialize,
{
    let c: T = match serde_json::from_value(case.clone()) {
        Ok(c) => c,
        Err(e) => {
            ctx.infra_error(format!("replay case does not decode for {}: {}", sub, e));
            return;
        }
    };
    let v = ctx.scope(sub, false, |h| {
        h.evals(1);
        match catch(|| f(h, &c)) {
            Ok(v) => v,
            Err(p) => Verdict::from_panic("harness-or-subject", &p),
        }
    });
    if let Verdict::Fail { sig, what } = v {
        ctx.report(sub, &sig, &what, &c);
    }
}

// ---------------------------------------------------------------- worker processes

#[derive(Debug, Clone, Serialize, Deserialize)]
pub enum WorkerOut {
    /// the worker returned a value
    Ok(Value),
    /// the subject panicked inside the worker (caught)
    Panic(PanicInfo),
    /// the worker process died (abort, stack overflow, OOM kill)
    Died(String),
    /// no answer within the watchdog
    Hang,
}

pub struct Worker {
    sub: String,
    child: Option<Child>,
    stdin: Option<ChildStdin>,
    rx: Option<Receiver<String>>,
    pub restarts: u64,
}

impl Worker {
    pub fn new(sub: &str) -> Worker {
        Worker {
            sub: sub.to_string(),
            child: None,
            stdin: None,
            rx: None,
            restarts: 0,
        }
    }

    fn spawn(&mut self) -> Result<(), String> {
        let exe = std::env::current_exe().map_err(|e| e.to_string())?;
        // address-space limit so that a runaway subject dies instead of taking the machine down
        let mut child = Command::new("sh")
            .arg("-c")
            .arg("ulimit -v 3145728; exec \"$0\" \"$@\"")
            .arg(exe)
            .arg("--worker")
            .arg(&self.sub)
            .env("RUST_BACKTRACE", "0")
            .env_remove("RUST_LOG")
            .stdin(Stdio::piped())
            .stdout(Stdio::piped())
            .stderr(Stdio::null())
            .spawn()
            .map_err(|e| e.to_string())?;
        let stdout = child.stdout.take().ok_or("no stdout")?;
        let (tx, rx) = channel::<String>();
        std::thread::spawn(move || {
            let r = BufReader::new(stdout);
            for line in r.lines() {
                match line {
                    Ok(l) => {
                        if let Some(rest) = l.strip_prefix("@@R ") {
                            if tx.send(rest.to_string()).is_err() {
                                break;
                            }
                        }
                    }
                    Err(_) => break,
                }
            }
        });
        self.stdin = child.stdin.take();
        self.child = Some(child);
        self.rx = Some(rx);
        Ok(())
    }

    pub fn kill(&mut self) {
        if let Some(mut c) = self.child.take() {
            let _ = c.kill();
            let _ = c.wait();
        }
        self.stdin = None;
        self.rx = None;
    }

    /// Sends one case; restarts the child if it is gone. `fresh` forces a new process.
    pub fn call<C: Serialize>(&mut self, case: &C, timeout: Duration) -> WorkerOut {
        if self.child.is_none() {
            if let Err(e) = self.spawn() {
                return WorkerOut::Died(format!("spawn failed: {}", e));
            }
            self.restarts += 1;
        }
        let line = serde_json::to_string(case).unwrap_or_default();
        let ok = self
            .stdin
            .as_mut()
            .map(|s| writeln!(s, "{}", line).and_then(|_| s.flush()).is_ok())
            .unwrap_or(false);
        if !ok {
            self.kill();
            return WorkerOut::Died("write to worker failed".into());
        }
        let r = self.rx.as_ref().unwrap().recv_timeout(timeout);
        match r {
            Ok(l) => serde_json::from_str::<WorkerOut>(&l)
                .unwrap_or_else(|e| WorkerOut::Died(format!("bad worker answer: {}", e))),
            Err(RecvTimeoutError::Timeout) => {
                self.kill();
                WorkerOut::Hang
            }
            Err(RecvTimeoutError::Disconnected) => {
                let status = self
                    .child
                    .as_mut()
                    .and_then(|c| c.wait().ok())
                    .map(|s| s.to_string())
                    .unwrap_or_default();
                self.kill();
                WorkerOut::Died(status)
            }
        }
    }
}

impl Drop for Worker {
    fn drop(&mut self) {
        self.kill();
    }
}

/// Main loop of a worker process: one JSON case per line on stdin, one "@@R <json>" per case.
pub fn worker_main(handler: impl Fn(Value) -> Value) -> ! {
    install_panic_hook();
    let stdin = std::io::stdin();
    for line in stdin.lock().lines() {
        let line = match line {
            Ok(l) => l,
            Err(_) => break,
        };
        if line.trim().is_empty() {
            continue;
        }
        let out = match serde_json::from_str::<Value>(&line) {
            Ok(v) => match catch(|| handler(v)) {
                Ok(r) => WorkerOut::Ok(r),
                Err(p) => WorkerOut::Panic(p),
            },
            Err(e) => WorkerOut::Died(format!("worker could not decode case: {}", e)),
        };
        let mut so = std::io::stdout().lock();
        let _ = writeln!(so, "\n@@R {}", serde_json::to_string(&out).unwrap());
        let _ = so.flush();
    }
    std::process::exit(0)
}

/// Runs a closure on a helper thread with a watchdog; None on timeout (the thread is leaked).
pub fn with_timeout<R: Send + 'static>(d: Duration, f: impl FnOnce() -> R + Send + 'static) -> Option<R> {
    let (tx, rx) = channel();
    std::thread::spawn(move || {
        let r = f();
        let _ = tx.send(r);
    });
    rx.recv_timeout(d).ok()
}

thread_local! {
    static WORKERS: RefCell<BTreeMap<String, Worker>> = const { RefCell::new(BTreeMap::new()) };
}

/// Calls the per-thread worker process for `sub` (spawned on first use, restarted after death).
pub fn worker_call<C: Serialize>(sub: &str, case: &C, timeout: Duration) -> WorkerOut {
    WORKERS.with(|w| {
        let mut m = w.borrow_mut();
        let wk = m.entry(sub.to_string()).or_insert_with(|| Worker::new(sub));
        wk.call(case, timeout)
    })
}

/// Drops the per-thread worker so the next call starts a fresh process.
pub fn worker_reset(sub: &str) {
    WORKERS.with(|w| {
        w.borrow_mut().remove(sub);
    })
}
