#!/bin/bash
# try_seeded.sh <seeded-dir-name> [property ...] : applies /verif/seeded/<name>/patch.diff to /repo, runs the quick
# checks of the given properties (default: the property the change targets), restores /repo. Prints one line per check.
set -u
name=$1; shift
dir=/verif/seeded/$name
prop=${name%%-*}
props="$@"; [ -z "$props" ] && props=$prop
cd /repo || exit 2
if [ -n "$(git status --porcelain --untracked-files=no)" ]; then echo "repo not clean"; exit 2; fi
git apply $dir/patch.diff || { echo "$name: patch does not apply to /repo HEAD"; exit 3; }
for p in $props; do
  out=$(cd /verif && ./check $p quick 2>&1); rc=$?
  sig=$(echo "$out" | grep -A1 "^VIOLATION" | grep "signature=" | sed 's/.*signature=//' | sort -u | head -3 | tr '\n' ';')
  echo "SEEDED $name check=$p rc=$rc ${sig}"
done
git checkout -q -- .
