#!/bin/bash
# run_all.sh <tier> [seeds...] : runs every registered check once per seed; prints one line per run.
tier=${1:-quick}; shift
seeds="$@"; [ -z "$seeds" ] && seeds=0
for s in $seeds; do
  for p in C01 C02 C03 C04 C05 C06 C07 C08 C09 C10 C11 C12 C13 C14 C15 C16 C17 C18 C19 C20; do
    t0=$(date +%s)
    out=$(cd /verif && VERIF_SEED=$s ./check $p $tier 2>&1); rc=$?
    t1=$(date +%s)
    echo "seed=$s $p rc=$rc $((t1-t0))s $(echo "$out" | grep -E "^C[0-9]+ " | tail -1 | cut -d' ' -f4-8) $(echo "$out" | grep -A1 '^VIOLATION' | grep signature= | head -2 | tr '\n' ' ') $(echo "$out" | grep INFRA | head -1)"
  done
done
