#!/bin/bash
# lane.sh <name> <command...> : runs <command> in an isolated copy of /repo and /verif.
# A lane is a pair of directories /tmp/lanes/<name>/{repo,verif} (copies of the working trees, without build
# output); inside a private mount namespace they are bind-mounted over /repo and /verif, so every hard-coded path of
# the checks works unchanged while nothing the command does (applying a seeded change, rebuilding, writing evidence)
# touches the real trees, and edits made to the real trees meanwhile do not disturb the command.
# Results of a lane are NOT evidence (evidence is written by checks running in /verif against /repo itself).
# `lane.sh <name> --refresh` re-copies the trees; `lane.sh <name> --remove` deletes the lane.
set -u
name=$1; shift
lane=/tmp/lanes/$name
if [ "${1:-}" = "--remove" ]; then rm -rf "$lane"; exit 0; fi
if [ ! -d "$lane/repo" ] || [ "${1:-}" = "--refresh" ]; then
  mkdir -p "$lane/repo" "$lane/verif"
  rsync -a --delete --exclude /target /repo/ "$lane/repo/"
  rsync -a --delete --exclude /target --exclude /replays --exclude /harness/target /verif/ "$lane/verif/"
  [ "${1:-}" = "--refresh" ] && shift
fi
[ $# -eq 0 ] && exit 0
cmd="$*"
exec unshare -m bash -c "mount --bind $lane/repo /repo && mount --bind $lane/verif /verif && cd /verif && $cmd"
