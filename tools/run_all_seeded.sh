#!/bin/bash
# Applies every confirmed seeded change to /repo in turn, runs the quick check of its property, restores /repo;
# writes seeded/results.json and seeded/RESULTS.md.
cd /verif
echo "{" > /tmp/seeded_results.json; first=1
for d in seeded/C*-m*; do
  n=$(basename $d)
  line=$(tools/try_seeded.sh $n 2>&1 | grep "^SEEDED" | head -1)
  rc=$(echo "$line" | sed -n 's/.*rc=\([0-9]*\).*/\1/p')
  sig=$(echo "$line" | sed 's/.*rc=[0-9]* //' | tr -d '"')
  [ $first -eq 0 ] && echo "," >> /tmp/seeded_results.json; first=0
  echo "\"$n\": {\"rc\": ${rc:-2}, \"signatures\": \"$sig\"}" >> /tmp/seeded_results.json
  echo "$line"
done
echo "}" >> /tmp/seeded_results.json
cp /tmp/seeded_results.json seeded/results.json
python3 tools/seeded_meta.py
