#!/bin/bash
# Runs the repository's own test suite (guard off) and prints a pass/fail summary.
cd /repo || exit 2
out=$(CARGO_NET_OFFLINE=true cargo test --workspace --no-fail-fast --offline 2>&1)
rc=$?
echo "$out" | grep -E "^test result" | awk '{p+=$4; f+=$6} END {print "passed=" p " failed=" f}'
echo "$out" | grep -E "^test .* FAILED" 
exit $rc
