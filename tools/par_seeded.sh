#!/bin/bash
# par_seeded.sh [lanes=4] [name ...] : runs every confirmed seeded change (or only the named ones) against the quick
# check of its property, in <lanes> isolated lanes (tools/lane.sh) in parallel; merges the outcomes into
# seeded/results.json and regenerates seeded/RESULTS.md. /repo and /verif themselves are not touched while it runs.
set -u
n=${1:-4}; shift
cd /verif
if [ $# -gt 0 ]; then printf "%s\n" "$@" > /tmp/lanes_seeded_all.txt; else ls -d seeded/C*-m* | xargs -n1 basename > /tmp/lanes_seeded_all.txt; fi
rm -f /tmp/lanes_seeded_part.* /tmp/lanes_seeded_out.*; split -n r/$n -d /tmp/lanes_seeded_all.txt /tmp/lanes_seeded_part.
pids=""
for j in $(seq 0 $((n-1))); do
  part=/tmp/lanes_seeded_part.0$j
  ( tools/lane.sh seed$j --refresh true
    for m in $(cat $part); do
      tools/lane.sh seed$j "tools/try_seeded.sh $m 2>&1 | grep '^SEEDED\|not clean\|does not apply'"
    done > /tmp/lanes_seeded_out.$j 2>&1 ) &
  pids="$pids $!"
done
wait $pids
cat /tmp/lanes_seeded_out.* | sort > /tmp/lanes_seeded_out.all
python3 - <<'PY'
import json,re
res={}
try:
    res=json.load(open('/verif/seeded/results.json'))
except Exception:
    pass
for l in open('/tmp/lanes_seeded_out.all'):
    m=re.match(r'SEEDED (\S+) check=(\S+) rc=(\d+) ?(.*)',l.strip())
    if m:
        res[m.group(1)]={"rc":int(m.group(3)),"signatures":m.group(4).strip()}
json.dump(res,open('/verif/seeded/results.json','w'),indent=1,sort_keys=True)
print(len(res),"results;",sum(1 for r in res.values() if r['rc']==1),"caught")
PY
python3 tools/seeded_meta.py
for j in $(seq 0 $((n-1))); do tools/lane.sh seed$j --remove; done
