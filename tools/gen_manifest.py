#!/usr/bin/env python3
"""Regenerates /verif/MANIFEST.json from the table below (one entry per implemented property)."""
import json, sys

PBT = "property-based testing (proptest generators, sharded deterministic runners, shrinking to replay files)"
CHECKS = {
 "C08": ("exploration", "Generated envelope models + shipped models; K recomputed independently in f64 from the model (own envelope rule, net areas, multipliers, override > computed > 5.7, non-negative bridges); breakdown identities (category means within [min, max] to 2e-4; user U values with two or four decimals); metamorphic reorder/rename/re-id. Sampling of the model space, no proof.",
         "per-element U-values are inputs (C06/C07 decide them); trusts rustc/std f64, proptest", PBT + " against an independent f64 reference model plus metamorphic relations"),
 "C09": ("exploration", "Generated envelope models incl. degenerate (zero volume, no exterior opaque area) + shipped models; n50_ref, test branch and back-calculated wall permeability recomputed in f64; identities among reported fields.",
         "per-space net heights are inputs (C11 checks them)", PBT + " against an independent f64 reference model"),
 "C10": ("exploration", "Generated models x 32 zones, exhaustive 32 zones x 9 orientation classes one-window models, shipped models; Q_sol;jul recomputed in f64 with the oracle's own sector classifier and own lookup in the embedded monthly table; breakdown, means, finiteness without windows. Two-decimal rounding ties are treated as intervals.",
         "computed F_sh;obst per window is an input (C12); embedded tables are data (C20)", PBT + " + exhaustive enumeration of zone x orientation, independent f64 reference model"),
 "C11": ("exploration", "Generated and shipped models: areas, net heights, A_ref, volumes, compactness, per-wall envelope membership and the two ventilation-rate implementations against an f64 recomputation, repeated in the same thread after an edit that deepens the floor slabs and leaves every space record unchanged; scaling law as metamorphic relation; classifiers on all class boundaries +-4096 ulps and 10^6 values (thorough: every f32 in [-720,1080]), parser vs model on [0,360].",
         "trusts rustc/std f64 rem_euclid for the exact residue", PBT + " with f64 reference model, metamorphic scaling, boundary-value and exhaustive f32 enumeration"),
 "C13": ("exploration", "Generated obstacle sets (0..200 boxes / posed polygons incl. duplicates and shared centres) x leaf sizes x rays: BVH answer must equal testing every element and build must terminate (worker process + watchdog); polygon/ray answers must match an exact f64 reference outside a 1 mm band (one aimed ray in ten starts 0.3-4 mm in front of the plane; the side of the plane is undecided within 1e-4 m + 4e-5 x distance from the global origin); bounding boxes contain all corners; reveal quads of set-back windows must coincide with first-principles quads. Thorough tier only: a libFuzzer campaign over bytes decoded into boxes on a 1 cm grid with exact duplicates, leaf size and rays, with the BVH-vs-exhaustive oracle inside the target.",
         "trusts rustc/std f64, proptest RNG/shrinker; oracle geometry written independently in f64", PBT + " with differential oracle (BVH vs exhaustive) and exact f64 reference geometry; coverage-guided fuzzing (libFuzzer via cargo-fuzz, arbitrary::Unstructured decoding) in the thorough tier"),
 "C20": ("exploration", "All 365 dates (exhaustive); latitude x declination x hour-angle grid + random points against unit-vector spherical astronomy (directions, incidence angles, convention ties with the model's normals), plus surfaces that face the sun of each grid point exactly or within 0.002 degrees; radiation identities on random inputs and all 8760 hours of the shipped weather file; all 32 zones x 9 classes x 12 months and July-day tables (exhaustive) incl. D3 against the shipped file.",
         "the shipped zonaD3.met is the source of the D3 tables; trusts rustc/std f64 trigonometry", PBT + " + exhaustive enumeration (dates, table cells, weather-file hours) against an f64 astronomical reference"),
}
# filled in as the remaining properties get their checks
EXTRA = {}
try:
    EXTRA = json.load(open('/verif/tools/manifest_extra.json'))
except Exception:
    pass
for k, v in EXTRA.items():
    CHECKS[k] = tuple(v)

ALL = ["C%02d" % i for i in range(1, 21)]
NA = {}
try:
    NA = json.load(open('/verif/tools/not_applicable.json'))
except Exception:
    pass

checks = []
for pid in ALL:
    if pid not in CHECKS:
        continue
    cat, text, note, tech = CHECKS[pid]
    checks.append({
        "property_id": pid,
        "quick_cmd": "./check %s quick" % pid,
        "thorough_cmd": "./check %s thorough" % pid,
        "evidence_file": "/verif/evidence/%s.json" % pid,
        "replay_cmd_template": "./check --replay {path}",
        "engine": "cteverif",
        "level_claimed": {"category": cat, "text": text, "design_ref": "DESIGN.md section 3, %s" % pid},
        "level_note": note,
        "technique": tech,
    })
not_applicable = [{"property_id": p, "reason": NA.get(p, "check not built yet in this round (planned, see DESIGN.md section 3); not claimed until its command exists")} for p in ALL if p not in CHECKS]
m = {
  "version": 1,
  "setup_cmd": "cd /verif/harness && CARGO_NET_OFFLINE=true cargo build --bins",
  "hooks": {
    "guard": "pachi_cteenergymodel_verif",
    "enable": "none needed: every observation point is public API; the guard name is reserved (RUSTFLAGS=--cfg pachi_cteenergymodel_verif) for later additive hooks",
    "baseline_off_cmd": "cd /repo && cargo test --workspace --no-fail-fast --offline",
    "source_commits": [],
    "add_only": True
  },
  "engines": [{
    "name": "cteverif", "path": "/verif/harness", "serves_properties": [c["property_id"] for c in checks],
    "kind_free_text": "Rust harness crate with path dependencies on /repo's crates (every run rebuilds what changed there): sharded deterministic proptest runners (seed = VERIF_SEED x property x sub-check x shard), exhaustive enumerations, f64 reference oracles, panic capture, worker processes with watchdog for subjects that may hang or crash, known-findings matcher, shrunk replay files, saved regression replays; drives the libFuzzer campaigns of /verif/fuzz in the thorough tiers"
  }, {
    "name": "cteverif-fuzz", "path": "/verif/fuzz", "serves_properties": ["C04", "C13", "C14", "C16", "C19"],
    "kind_free_text": "cargo-fuzz crate (libfuzzer-sys, arbitrary) with seven targets (bvh, model_json, model_roundtrip, model_purge, bdl_text, ctehexml_text, aux_text), path dependencies on /repo's crates, in-target oracles, structure-aware custom mutators and class counters; built (cargo +nightly fuzz build --sanitizer none) and run by the harness as fixed-work campaigns; a crash becomes a VIOLATION whose replay file carries the input"
  }],
  "checks": checks,
  "not_applicable": not_applicable,
  "notes": "exit codes: 0 held / 1 VIOLATION line printed / 2 infrastructure problem or inconclusive (never a violation). Known findings: /verif/known_findings.json."
}
json.dump(m, open('/verif/MANIFEST.json', 'w'), indent=2)
print("manifest: %d checks, %d not yet claimed" % (len(checks), len(not_applicable)))
