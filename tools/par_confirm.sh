#!/bin/bash
# par_confirm.sh "<ID> <ID> ..." "<mK> <mK>" : confirms seeded changes of several scratch worktrees in parallel
# (each worktree has its own build directory), prints one line per change.
ids=$1; ms=$2
for id in $ids; do
  ( for m in $ms; do /verif/tools/confirm_seeded.sh /tmp/wt/$id $m 2>&1 | tail -2; done ) > /tmp/wt/confirm.$id.out 2>&1 &
done
wait
for id in $ids; do cat /tmp/wt/confirm.$id.out; done
