#!/usr/bin/env python3
"""Completes /verif/seeded/*/meta.json (what the change breaks / needs) and writes seeded/RESULTS.md
from seeded/results.json (produced by tools/run_all_seeded.sh)."""
import json, os, glob
INFO = {
 "C01-m1": ("hulc2model initialises env_logger with Target::Stdout", "a log record at the active level: RUST_LOG=warn/info on a GT project, or a project whose yearly schedules make the library log an error"),
 "C01-m2": ("thor writes -o/-r files without truncating", "the output file already exists and is longer than the new JSON (two runs into the same path)"),
 "C02-m1": ("window->wall lookup only done when the window has overhang/fins; wall id falls back to nil", "a window without overhang/fins whose positional parent is not a converted wall (e.g. first wall of the file removed)"),
 "C02-m2": ("glass and frame name->id maps merged into one map", "a GLASS-TYPE and a NAME-FRAME sharing a name (HULC writes 'Ninguno' for both)"),
 "C03-m1": ("rectangular shade azimuth uses azimuth - deviation", "a rectangular BUILDING-SHADE and a global deviation that is neither 0 nor 180"),
 "C03-m2": ("SPACE HEIGHT attribute overrides the storey height", "a SPACE block whose HEIGHT differs from its FLOOR's SPACE-HEIGHT"),
 "C04-m1": ("PropsOverrides::is_empty uses || instead of &&", "a model with only wall overrides or only window overrides"),
 "C04-m2": ("WallGeom.azimuth normalised onto [-180,180) on load", "an azimuth of exactly +180 (or out of range)"),
 "C05-m1": ("process-wide cache of F_sh;obst keyed on (zone, window id)", "two models with the same window ids but different surroundings computed in one process"),
 "C05-m2": ("process-wide cache of construction/material ids keyed on (kind, name)", "two different projects defining a same-named construction converted in one process"),
 "C06-m1": ("basement wall: d_t no longer limited to d_w", "a buried side wall (z < 0) less insulated than the slab"),
 "C06-m2": ("partition R_si chosen by tilt only, not by which space owns the element", "a horizontal partition owned by the unconditioned space"),
 "C07-m1": ("frame lookup skipped when F_f == 0", "F_f exactly 0 with a nil/dangling frame reference"),
 "C07-m2": ("user shading factor filtered to (0,1]", "a user g_gl;sh;wi below 0.005 (e.g. 0.0)"),
 "C08-m1": ("net opaque area = m*gross - sum(m*window) with windows already multiplied", "an envelope wall with windows in a space with multiplier != 1"),
 "C08-m2": ("override only honoured when a computed U exists", "an element without computable U that has a user override"),
 "C09-m1": ("back-computed wall permeability clamped at 0", "a blower-door value below the leakage attributed to the windows"),
 "C09-m2": ("window C*A accumulated without the space multiplier", "a window in an exterior wall of a space with multiplier != 1"),
 "C10-m1": ("window filter becomes bounds != INTERIOR", "a window on an ADIABATIC envelope wall"),
 "C10-m2": ("F_sh;obst override range-checked with a half-open range", "an override of exactly 1.0"),
 "C11-m1": ("envelope rule asymmetric for interior walls", "a partition between inside and outside space declared from the outside space"),
 "C11-m2": ("Model::global_ventilation_rate loses the space multiplier", "global ventilation set and a habitable inside space with multiplier != 1"),
 "C12-m1": ("irradiance on the window plane cached per azimuth only", "two windows on walls with the same azimuth but different tilt"),
 "C12-m2": ("occluder AABB pre-check requires t >= 0", "an oblique obstacle whose bounding box contains the ray origin"),
 "C13-m1": ("half-split fallback removed for an empty right side", "coinciding centres whose f32 mean rounds above the value (e.g. 7 boxes at 0.1, leaf 2)"),
 "C13-m2": ("point_in_poly initial vertex classified with > instead of >=", "a crossing point whose y equals the y of the last stored vertex bit for bit"),
 "C14-m1": ("n50 back-calculation guards the numerator instead of the denominator", "a blower-door value and zero net exterior opaque area"),
 "C14-m2": ("weekly expansion indexes modulo the week length", "a weekly schedule that expands to zero days used by a yearly schedule"),
 "C15-m1": ("nil next_to treated as no adjacent space", "next_to redirected to the nil uuid"),
 "C15-m2": ("indicator warnings de-duplicated by element id", "an element with two broken links, read through EnergyIndicators"),
 "C16-m1": ("purge order: use definitions before spaces", "an unreferenced space carrying loads nobody else uses"),
 "C16-m2": ("space reachability ignores Wall::next_to", "a space referenced only as next_to of another space's wall"),
 "C17-m1": ("day_of_year February correction uses month >= 2", "a yearly schedule end date in February"),
 "C17-m2": ("schedule averages weighted by weekly means", "a week whose days differ in a period that is not a whole number of weeks"),
 "C18-m1": ("UNDERGROUND-FLOOR dropped from the parent-tracking arm", "a document with an UNDERGROUND-FLOOR block followed by child blocks"),
 "C18-m2": ("absent SYSTEM-CONDITIONS falls back to SPACE-CONDITIONS", "a SPACE with SPACE-CONDITIONS written, SYSTEM-CONDITIONS absent and both values different"),
 "C19-m1": ("normalize() rewritten as add/subtract loops", "a huge or infinite AZIMUTH value in a damaged file"),
 "C19-m2": ("edge_vertices bound check off by one", "a vertex line of a space polygon deleted while a wall sits on that vertex"),
 "C20-m1": ("angle_sol_surf computes cos(tilt) as sqrt(1-sin^2)", "surfaces with tilt in (90, 180]"),
 "C20-m2": ("azimuth last branch sign slip", "afternoon sun north of the east-west line"),
 "C01-m3": ("PropsOverrides::is_empty (the skip_serializing_if predicate) only looks at walls", "--use-extra on a project whose result files change a window factor but no wall U"),
 "C01-m4": ("Meta gets a container-level serde(default): an omitted name loads as the default project name", "a project without name (empty nomPro)"),
 "C02-m3": ("window constructions iterated from the database instead of looked up by used name", "a window whose GAP names a construction defined nowhere"),
 "C02-m4": ("materials keyed by the raw block name while Material.name is normalised", "a material name with two consecutive blanks, used by a LAYERS block"),
 "C03-m3": ("edge-normal azimuth rounded to 0.1 degree in the parser", "a long oblique wall located by SPACE-Vn"),
 "C03-m4": ("vertex-defined shade counted as horizontal below 0.57 degrees of slope", "a large, nearly flat, upward-facing vertex shade"),
 "C04-m3": ("Meta container-level serde(default) with per-field defaults removed", "a model with an empty project name"),
 "C04-m4": ("PropsOverrides maps become HashMap", "two or more overrides of one kind and a text comparison"),
 "C05-m3": ("construction absorptance written into the shared LAYERS object", "a second CONSTRUCTION with its own absorptance over layers that a plain construction also uses"),
 "C05-m4": ("PropsOverrides maps become HashMap (per-instance iteration order)", "an export with result files (--use-extra) that yields two or more overrides of one kind"),
 "C06-m3": ("ventilation term of the cond/uncond partition uses the multiplied volume", "an unconditioned neighbour with multiplier != 1 and ventilation"),
 "C06-m4": ("basement slab regime chosen on d_t < B' instead of d_t + z/2 < B'", "a buried floor with small footprint and deep z"),
 "C07-m3": ("window U clamped between glass and frame U ignoring dU", "dU > 0 with a mean close to the larger of U_g, U_f"),
 "C07-m4": ("default solar factor derived from Glass::default (0.75) in EnergyProps", "a window construction with unresolved glass, read through props/indicators"),
 "C08-m3": ("envelope membership of EXTERIOR/GROUND walls uses the INTERIOR rule", "an exterior or ground wall that still carries a next_to reference"),
 "C08-m4": ("elements on the 5.7 fallback left out of category min/max", "an envelope element without computable U and without override"),
 "C09-m3": ("C_o = 16 also when a blower-door value exists", "an existing building with a test value"),
 "C09-m4": ("window pass of n50 drops the bounds == EXTERIOR filter", "a window hosted by a ground / adiabatic / interior envelope wall"),
 "C10-m3": ("an override record without f_shobst forces F_sh;obst = 1", "a window with a U-only override and real shading"),
 "C10-m4": ("zero-area guard tests !props.windows.is_empty()", "a model with windows none of which qualifies"),
 "C11-m3": ("tilt classifier folded about 180 degrees", "a tilt that normalises to exactly 240"),
 "C11-m4": ("compactness: ground-contact area without the space multiplier", "a multiplied space with a GROUND element"),
 "C12-m3": ("occluders with 3 vertices dropped as degenerate", "a triangular wall or shade between a window and the sun"),
 "C12-m4": ("occluders culled when their box centre is behind the facade plane", "an obstacle crossing the facade plane, mostly behind it, shading from its front part"),
 "C13-m3": ("polygon bounding box from two transformed local corners", "a surface that is neither vertical nor turned by a multiple of 90 degrees"),
 "C13-m4": ("tilt clamped to [0,180] in the placement matrix", "a set-back window on a leaning wall (sill / head reveal)"),
 "C14-m3": ("NaN slips through the exposed-perimeter clamp", "a space with a ground floor and no side wall"),
 "C14-m4": ("thermal_bridges of the props skipped when empty, without a serde default", "a model without thermal bridges whose result JSON is loaded back"),
 "C15-m3": ("bridge length compared after rounding to centimetres", "a negative length above -0.005"),
 "C15-m4": ("missing wall construction not reported when the wall has a U override", "dangling cons plus a user U on the same wall"),
 "C16-m3": ("used day schedules found by expanding the calendar", "a week used for fewer than 7 days, one of whose day schedules never lands on a date"),
 "C16-m4": ("frames of constructions with F_f = 0 treated as unused", "a used frameless construction whose frame nobody else uses"),
 "C17-m3": ("week run-length encoding merges non-adjacent runs of the same day schedule", "a HULC week such as (I,V,I,I,I,V,V)"),
 "C17-m4": ("occupied hours = max of per-schedule counts instead of the hour-wise OR", "two occupied spaces whose daily profiles overlap only partly"),
 "C18-m3": ("numeric guard of AttrMap::insert forgets '+'", "a value written with a plus sign or a positive exponent sign"),
 "C18-m4": ("SPACE Z replaced by the FLOOR Z instead of added", "a SPACE with its own non-zero Z"),
 "C19-m3": ("multi-line list loop without the end-of-input branch", "a list whose closing line was deleted (hang)"),
 "C19-m4": ("day_of_year via a 12-entry table indexed by month - 1", "a MONTH value of 0 or above 12 in a SCHEDULE-PD"),
 "C20-m3": ("sun data memoised per (day, hour) without the latitude", "two latitudes evaluated in one thread"),
 "C20-m4": ("December missing from a compile-time elapsed-days table", "any December date"),
 "C01-m5": ("f_shobst significance test rewritten NaN-unsafe: a KyG row with zero radiation stores Some(NaN)", "--use-extra with a KyG window row whose radiation columns are all 0"),
 "C01-m6": ("used window constructions deduplicated through a HashSet", "a project with two or more window constructions, tool process vs library call"),
 "C02-m5": ("catalogue cached in a static and project definitions merged into the cached object", "the intact project converted before the broken variant in one process"),
 "C02-m6": ("only used condition blocks exported, thermostats filtered on the SPACE-CONDITIONS name", "a SYSTEM-CONDITIONS name that is not also a SPACE-CONDITIONS name"),
 "C03-m5": ("space placement composed as rot * translation", "a SPACE with both an X/Y offset and an AZIMUTH"),
 "C03-m6": ("rectangular shade tilt wrapped into [0,180)", "a rectangle-defined shade with TILT = 180"),
 "C04-m5": ("WinCons.c_100 gets skip_serializing_if = is_default (0.0) with a default of 50", "a window construction with c_100 = 0"),
 "C04-m6": ("bridge length rounded to cm on save while the skip test sees the raw value", "a length with a third decimal / below 0.005"),
 "C05-m5": ("fin shades built with ..Default::default(): random ids", "a window with a left or right fin"),
 "C05-m6": ("Q_sol;jul summed in HashMap order", "windows in three or more orientations, exact comparison of repeated computations"),
 "C06-m5": ("outside-envelope term of the partition formula uses gross wall area plus windows", "a window in an exterior wall of the unconditioned neighbour"),
 "C06-m6": ("material guard moved out of the GROUND arm", "a ground slab whose construction has a layer without material"),
 "C07-m5": ("user shading factor lost when the glazing does not resolve", "user g_gl;sh;wi together with a nil / dangling glass"),
 "C07-m6": ("glazed fraction rounded to whole percents", "a frame fraction with a third decimal"),
 "C08-m5": ("window filter of K copied from n50 (EXTERIOR only)", "a window on a GROUND envelope wall"),
 "C08-m6": ("per-wall window area table built with chunk_by", "windows of one wall not adjacent in model.windows"),
 "C09-m5": ("envelope membership of every wall decided from next_to", "an exterior wall with a stale next_to"),
 "C09-m6": ("walls with zero net area skipped together with their windows", "a fully glazed exterior wall"),
 "C10-m5": ("per-orientation gains rebuilt from the means", "two windows of one orientation differing in two of F_sh, g, F_f"),
 "C10-m6": ("a_wp accumulated without the space multiplier", "a qualifying window in a space with multiplier != 1"),
 "C11-m5": ("normalize wraps only one turn", "angles below -360 or from 720 up"),
 "C11-m6": ("Space::area rounds each floor slab to two decimals before summing", "several slabs with a third decimal, a large multiplier or a small scale"),
 "C12-m5": ("to_polygon_coords_matrix composed as rot * trans", "a wall polygon that neither starts at the local origin nor runs along +x first"),
 "C12-m6": ("sill reveal of set-back windows dropped", "a set-back roof window (tilt < 90) with the sun low along the slope"),
 "C13-m5": ("BVH leaf loop accepts only t >= 0", "box obstacles with the ray origin inside one box"),
 "C13-m6": ("plane-crossing distance without the normal's sign", "a clockwise polygon or a concave one starting at a reflex corner"),
 "C14-m5": ("half-split fallback kept only for an empty left side", "more than 30 occluders with coinciding centres whose f32 mean rounds upward (hang)"),
 "C14-m6": ("occupancy years indexed without the length guard", "two occupied spaces whose people schedules expand to different day counts"),
 "C15-m5": ("adjacent-space check only on INTERIOR walls", "a non-interior wall with a dangling next_to"),
 "C15-m6": ("negative bridge length decided by the sign bit", "a bridge of length -0.0"),
 "C16-m5": ("kept schedules compacted with sort_unstable_by_key", "lists of several dozen schedules with used and unused interleaved"),
 "C16-m6": ("bridges with negative length purged as if zero", "a bridge with l < 0"),
 "C17-m5": ("expanded weeks cached by week id, already rotated", "one week reused in two periods starting on different weekdays"),
 "C17-m6": ("area weights lost when spaces share a loads definition", "two spaces sharing loads plus a third with other loads"),
 "C18-m5": ("quote trimming hoisted before multi-line list detection", "a quoted string starting with ( or a list line ending after a closing quote"),
 "C18-m6": ("off-by-one column in the KyG gains lines", "a window whose h2 differs from h3"),
 "C19-m5": ("attribute-not-found error text shortened with String::truncate at a byte offset", "a deleted attribute line in a block whose dump has a multi-byte character across byte 160 (one line of casoA)"),
 "C19-m6": ("BVH median split sorts with partial_cmp().unwrap()", "a 1e39 TILT / AZIMUTH / Z of a shade in a project with more than 30 occluders, through the tool's indicator stage"),
 "C20-m5": ("beam floor raised from 0.01 to 1 degree", "sun below 1 degree with direct radiation > 0"),
 "C20-m6": ("asin argument clamped on one side only", "afternoon sun exactly due west (NaN)"),
 "C01-m7": ("debug println! left active in the on-site Cogeneración branch of the systems reader", "a project with valMenELE = SI and a Cogeneración row"),
 "C01-m8": ("loader wraps geometry.azimuth into [-180,180]", "a window fin on a wall facing W-NW-N (converter emits azimuth - 90 unnormalised)"),
 "C02-m7": ("fin / overhang shade ids hashed without the geometry", "a window with two equal fins"),
 "C02-m8": ("undefined PEOPLE-SCHEDULE swallowed when AREA/PERSON = 0", "a zero-occupancy SPACE-CONDITIONS block whose people schedule reference is broken"),
 "C03-m7": ("edge normal chosen away from the outline's vertex mean", "a notch edge of a concave outline"),
 "C03-m8": ("space AZIMUTH left out of the azimuth of polygon-defined walls", "a rotated SPACE with a wall defined by its own POLYGON"),
 "C04-m7": ("empty extra list skipped on save", "extra = Some(vec![])"),
 "C04-m8": ("from_json clears next_to on non-INTERIOR walls", "an exterior / ground / adiabatic wall with next_to"),
 "C05-m7": ("latitude frozen in a process-wide OnceLock", "a mainland and a Canary-zone model computed in one process"),
 "C05-m8": ("BUILDING-SHADE id includes its list position", "another shade written before an existing one"),
 "C06-m7": ("exposed perimeter counts partitions to any different kind of space", "a ground slab in a non-conditioned space with a partition to another kind (a class the oracle leaves undecided)"),
 "C06-m8": ("Model::global_ventilation_rate divides by all habitable spaces", "global ventilation, a neighbour without own rate, a habitable space outside the envelope"),
 "C07-m7": ("window U rounded twice", "dU > 0 and a frame/glass mean with a third decimal"),
 "C07-m8": ("frame-fraction guard with a half-open range", "F_f exactly 1.0"),
 "C08-m7": ("negative-length bridges skipped with skip_while", "a negative bridge whose id sorts after a non-negative one"),
 "C08-m8": ("walls with zero net area skipped before the window loop", "a fully glazed envelope wall"),
 "C09-m7": ("blower-door value ignored for non-dwellings", "a tertiary building with a test value"),
 "C09-m8": ("window construction with C_100 = 0 gets the 100 default", "c_100 = 0 on a used construction"),
 "C10-m7": ("a window without construction also loses its F_sh;obst", "missing construction plus an override or computed factor < 1"),
 "C10-m8": ("orientation classifier rewritten symmetrically", "an azimuth exactly on a west-side sector limit"),
 "C11-m7": ("ADIABATIC elements regrouped with INTERIOR in the envelope rule", "an adiabatic element of an inside space, read through is_tenv"),
 "C11-m8": ("reported ventilation rate divided by vol_env_net", "global ventilation plus an uninhabited space inside the envelope"),
 "C12-m7": ("occluder bounding box from two opposite corners", "a canopy both sloped and turned in plan"),
 "C12-m8": ("occluder list cached per thread, keyed on ids", "geometry changed with ids kept, computed again on the same thread"),
 "C13-m7": ("BVH build dedups neighbours with equal boxes", "two different polygons with bit-identical bounding boxes, adjacent in the list"),
 "C13-m8": ("Ray::new keeps directions shorter than 1 un-normalised", "a tiny direction vector (|dir| * |cos| < 1e-5)"),
 "C14-m7": ("ventilation-rate guard tests vol_env_net", "global ventilation set and only uninhabited spaces inside the envelope"),
 "C14-m8": ("Polygon::normal indexes [2] for two-vertex polygons", "a positioned shade / exterior wall with exactly two vertices"),
 "C15-m7": ("window host-wall check only against walls whose space exists", "an intact window on a wall with a dangling space"),
 "C15-m8": ("missing constructions reported once per target id", "two elements dangling to the same absent construction"),
 "C16-m7": ("thermostats counted as used only for CONDITIONED spaces", "a non-conditioned space with its own thermostat"),
 "C16-m8": ("one growing used-id set shared by year, week and day lists", "an unreachable week whose id equals a used year's id"),
 "C17-m7": ("average load: spaces without loads enter the area denominator", "a habitable inside space with loads = None"),
 "C17-m8": ("daily schedule values rounded to two decimals on conversion", "a daily profile value with three decimals"),
 "C18-m7": ("shade vertices taken in attribute-map (lexicographic) order", "a vertex-defined shade with 10 or more vertices"),
 "C18-m8": ("default absorptance overwrites a written zero", "a CONSTRUCTION with ABSORPTANCE = 0"),
 "C19-m7": (".tbl element line split from the right underflows", "a damaged .tbl whose name/values pairing is shifted or short"),
 "C19-m8": ("KyG insolation factors stored by unchecked index", "the leading index of a factor line replaced by 9 or more"),
 "C20-m7": ("sun azimuth discriminator loses cos(declination)", "hour angles next to the due-east/west crossing in summer"),
 "C20-m8": (".met rows numbered with a leap reference year", "any date from 1 March on"),
 "C01-m9": ("parsed projects cached by (path, byte length) in parse_with_catalog_from_path", "the same path converted twice in one process with a same-length edit in between"),
 "C01-m10": ("occupancy years indexed without the length guard (panic in the tool's indicator stage)", "two occupied spaces whose people schedules expand to different day counts"),
 "C02-m9": ("used glasses / frames only collected when the frame fraction is below 1 / above 0", "a used GAP with PORCENTAGE = 100 (or 0) whose glass (frame) nobody else uses"),
 "C02-m10": ("explicit SYSTEM-CONDITIONS check skipped for non-conditioned spaces", "an UNHABITED space naming an undefined SYSTEM-CONDITIONS block"),
 "C03-m9": ("shade corner points read in lexicographic key order", "a vertex-defined shade with 10 or more corners"),
 "C03-m10": ("window offset (0,0) treated as no coordinates", "a WINDOW with X = 0 and Y = 0"),
 "C05-m9": ("per-thread cache of yearly-schedule averages keyed by schedule id", "two models in one thread with the same yearly-schedule id and different day values"),
 "C05-m10": ("one name->id map for yearly, weekly and daily schedules", "a schedule name reused across kinds"),
 "C11-m9": ("reference area requires a loads profile", "a habitable inside space with loads = None"),
 "C11-m10": ("parser tilt classifier rounds to two decimals", "a tilt within 0.005 degrees of a class limit"),
 "C12-m9": ("design-day hours below 20 W/m2 dropped from the mean", "an obstructed window in a zone whose July table has such an hour (six Canary zones)"),
 "C12-m10": ("hits closer than 5 cm to the ray origin ignored", "a set-back window less than 0.5 m high or wide"),
 "C14-m9": ("category mean U computed when the category has an element, not area", "a K category whose every element is fully glazed"),
 "C14-m10": ("direct irradiance loses its NaN-absorbing max", "a window plane whose normal points exactly at an hourly July sun position"),
 "C16-m9": ("schedules of a thermostat with only one set-point treated as unused", "a kept thermostat with only temp_min or only temp_max"),
 "C16-m10": ("glazings and frames not purged when no window construction is left", "a model without windows that carries a glazing library"),
 "C18-m9": ("written perteneceALaEnvolventeTermica = NO overridden by the legacy default", "a CONDITIONED space written with NO"),
 "C18-m10": ("KyG orientation O translated only when alone", "a Ventana line with orientation SO or NO"),
 "C19-m9": ("zone name upper-cased by slicing [..1]", "the weather-file line deleted or without the zona marker (empty name)"),
 "C19-m10": ("field-count guard of KyG window lines confuses index and count", "a KyG file truncated inside the 10th field of a Ventana line"),
}
res = {}
try:
    res = json.load(open('/verif/seeded/results.json'))
except Exception:
    pass
thorough = {}
try:
    thorough = json.load(open('/verif/seeded/thorough_results.json'))
except Exception:
    pass
undecided = {}
try:
    undecided = json.load(open('/verif/seeded/undecided.json'))
except Exception:
    pass
rows = []
for d in sorted(glob.glob('/verif/seeded/C*-m*')):
    name = os.path.basename(d)
    mp = os.path.join(d, 'meta.json')
    m = json.load(open(mp))
    breaks, needs = INFO.get(name, ("", ""))
    m['breaks'] = breaks
    m['needs_to_manifest'] = needs
    m['source'] = "written by an independent sub-agent that saw only the property text and its own scratch worktree"
    r = res.get(name)
    if r:
        m['detection'] = r
    if name in thorough:
        m['detection_thorough'] = thorough[name]
    if name in undecided:
        m['not_asserted_by_design'] = undecided[name]
    json.dump(m, open(mp, 'w'), indent=1, ensure_ascii=False)
    rows.append((name, m['property'], breaks, needs, r))
with open('/verif/seeded/RESULTS.md', 'w') as f:
    f.write("# Seeded changes and the checks that catch them\n\nEach change was written by a sub-agent from the property text alone, confirmed in a scratch worktree (applies, repository suite passes with it, demonstration fails with it and passes without it; see meta.json), then applied to /repo, the quick check of its property run, and /repo restored (tools/try_seeded.sh).\n\n| change | what it breaks | needs | quick check of its property | signatures |\n|---|---|---|---|---|\n")
    for name, prop, breaks, needs, r in rows:
        if r:
            t = thorough.get(name)
            verdict = "caught (exit 1)" if r.get('rc') == 1 else ("not caught, by design: " + undecided[name]) if name in undecided else ("not by the quick tier; caught by the thorough tier (exit 1): %s" % t.get('signatures', '') if t and t.get('rc') == 1 else "NOT caught (exit %s)" % r.get('rc'))
            f.write("| %s | %s | %s | %s | %s |\n" % (name, breaks, needs, verdict, r.get('signatures', '')))
        else:
            f.write("| %s | %s | %s | not run yet | |\n" % (name, breaks, needs))
print("ok", len(rows))
