#!/bin/bash
# confirm_seeded.sh <worktree> <m1|m2> : confirms a seeded change in its scratch worktree:
#  (1) applies cleanly, (2) repo test suite passes with it, (3) demo fails with it, (4) demo passes without it.
# Copies the confirmed change to /verif/seeded/<ID>-<mk>/ .
set -u
wt=$1; mk=$2; id=$(basename $wt)
d=$wt/SEEDED/$mk
cd $wt || exit 2
git checkout -q -- . 2>/dev/null
crate=$(grep -m1 "^CRATE:" $d/notes.md | sed "s/CRATE: *//" | tr -d ' \140'); [ -z "$crate" ] && crate=$(grep -oE "cargo test.* -p [a-z_0-9]+" $d/notes.md | head -1 | grep -oE "\-p [a-z_0-9]+" | head -1 | cut -c4-)
[ -z "$crate" ] && crate=bemodel
demo=$(ls $d | grep -E "demo.*\.rs$" | head -1)
if [ -z "$demo" ]; then echo "$id/$mk: no rust demo file (see notes)"; exit 3; fi
export CARGO_NET_OFFLINE=true
mkdir -p $crate/tests; cp $d/$demo $crate/tests/seeded_demo.rs
git apply --check $d/patch.diff || { echo "$id/$mk: patch does not apply"; rm -f $crate/tests/seeded_demo.rs; exit 4; }
# without patch
cargo test -p $crate --test seeded_demo --offline > /tmp/wt/$id.$mk.nopatch.log 2>&1; r_nopatch=$?
git apply $d/patch.diff
cargo test -p $crate --test seeded_demo --offline > /tmp/wt/$id.$mk.patch.log 2>&1; r_patch=$?
rm -f $crate/tests/seeded_demo.rs
out=$(cargo test --workspace --no-fail-fast --offline 2>&1); r_suite=$?
suite=$(echo "$out" | grep -E "^test result" | awk '{p+=$4; f+=$6} END {print "passed=" p " failed=" f}')
git checkout -q -- .
echo "$id/$mk: demo_without_patch_rc=$r_nopatch demo_with_patch_rc=$r_patch suite_with_patch: $suite (rc=$r_suite) crate=$crate"
if [ $r_nopatch -eq 0 ] && [ $r_patch -ne 0 ] && [ $r_suite -eq 0 ]; then
  dst=/verif/seeded/$id-$mk; mkdir -p $dst
  cp $d/patch.diff $dst/patch.diff; cp $d/$demo $dst/$demo; cp $d/notes.md $dst/notes.md
  echo "{\"property\": \"$id\", \"mutant\": \"$mk\", \"demo_crate\": \"$crate\", \"demo_file\": \"$demo\", \"confirmed\": {\"applies\": true, \"suite_with_patch\": \"$suite\", \"demo_with_patch_rc\": $r_patch, \"demo_without_patch_rc\": $r_nopatch}, \"how_confirmed\": \"tools/confirm_seeded.sh in the scratch worktree: demo copied to $crate/tests/seeded_demo.rs, run without and with the patch; full workspace suite with the patch\"}" > $dst/meta.json
  echo "CONFIRMED -> $dst"
else
  echo "NOT CONFIRMED"
fi
