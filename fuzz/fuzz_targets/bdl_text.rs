#![no_main]
// C19 beyond single edits: any byte string read as a Latin-1 BDL text (legacy .cte project) is parsed, merged with
// the LIDER catalogue and converted; Ok or Err pass, a panic does not.
use libfuzzer_sys::{fuzz_mutator, fuzz_target};
use std::sync::OnceLock;
mod common;

static CAT: OnceLock<hulc::bdl::DB> = OnceLock::new();

fuzz_target!(|data: &[u8]| {
    if data.len() > 200_000 {
        return;
    }
    let cat = CAT.get_or_init(|| hulc::ctehexml::load_lider_catalog().expect("catalogue loads"));
    let text: String = data.iter().map(|&b| b as char).collect();
    common::guarded(move || match hulc::bdl::Data::new(&text) {
        Ok(d) => {
            common::class("parsed");
            let mut c = hulc::ctehexml::CtehexmlData::default();
            c.bdldata = d;
            let db = &mut c.bdldata.db;
            db.materials.extend(cat.materials.clone());
            db.wallcons.extend(cat.wallcons.clone());
            db.wincons.extend(cat.wincons.clone());
            db.glasses.extend(cat.glasses.clone());
            db.frames.extend(cat.frames.clone());
            match bemodel::Model::try_from(&c) {
                Ok(m) => {
                    common::class("converted");
                    if !m.walls.is_empty() {
                        common::class("converted-with-walls");
                    }
                }
                Err(_) => common::class("convert-error"),
            }
        }
        Err(_) => common::class("parse-error"),
    });
});

// three out of four mutations are line-level edits (the fault vocabulary of the enumeration, combined and
// iterated under coverage guidance); the rest are libFuzzer's byte-level mutations
fuzz_mutator!(|data: &mut [u8], size: usize, max_size: usize, seed: u32| {
    if seed % 4 != 0 {
        if let Some(n) = common::mutate_lines(data, size, max_size, seed) {
            return n;
        }
    }
    libfuzzer_sys::fuzzer_mutate(data, size, max_size)
});
