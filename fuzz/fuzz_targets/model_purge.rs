#![no_main]
// C16 on arbitrary loadable models: purging is idempotent, never removes an item that a remaining item
// refers to (no new warning from the model checker) and never panics.
use libfuzzer_sys::{fuzz_mutator, fuzz_target};
mod common;
mod json_mutator;

fuzz_target!(|data: &[u8]| {
    if data.len() > 400_000 {
        return;
    }
    let text = match std::str::from_utf8(data) {
        Ok(t) => t.to_string(),
        Err(_) => return,
    };
    common::guarded(move || {
        let m = match bemodel::Model::from_json(&text) {
            Ok(m) => m,
            Err(_) => {
                common::class("rejected");
                return;
            }
        };
        common::class("loaded");
        let before = bemodel::check(&m).len();
        let mut p = m.clone();
        bemodel::purge_unused(&mut p);
        let j1 = p.as_json().unwrap_or_default();
        let after = bemodel::check(&p).len();
        if after > before {
            panic!("purge: the model checker reports {} warnings after purging, {} before", after, before);
        }
        // reachability by the harness's own link walker: every broken link of the purged model was already
        // broken before (nothing that a remaining item refers to has been removed)
        let broken_before: std::collections::HashSet<(&'static str, bemodel::Uuid)> = cteverif::gen::model::broken_links(&m).into_iter().map(|(k, _, to)| (k, to)).collect();
        for (k, from, to) in cteverif::gen::model::broken_links(&p) {
            if !broken_before.contains(&(k, to)) {
                panic!("purge: removed an item that is still referred to: link {} of {} to {}", k, from, to);
            }
        }
        let mut p2 = p.clone();
        bemodel::purge_unused(&mut p2);
        let j2 = p2.as_json().unwrap_or_default();
        if j1 != j2 {
            panic!("purge: purging twice differs from purging once");
        }
        if j1.len() < m.as_json().unwrap_or_default().len() {
            common::class("something-removed");
        }
    });
});

fuzz_mutator!(|data: &mut [u8], size: usize, max_size: usize, seed: u32| { json_mutator::mutate(data, size, max_size, seed) });
