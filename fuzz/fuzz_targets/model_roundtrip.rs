#![no_main]
// C04 on texts the model generator cannot produce (fields in any order, omitted defaults, integers for floats,
// unknown keys...): any JSON text that loads as a model must serialise to a text that loads back to an equal
// model (field by field, Debug text) and serialises again to the identical text.
use libfuzzer_sys::{fuzz_mutator, fuzz_target};
mod common;
mod json_mutator;

/// -0.0 and 0.0 are the same value (fields omitted "when they hold their default" compare with ==): the Debug
/// texts are compared with every negative zero written as 0.0
fn no_negative_zero(d: &str) -> String {
    let b = d.as_bytes();
    let mut out = String::with_capacity(d.len());
    let mut i = 0;
    while i < b.len() {
        if b[i] == b'-' && d[i..].starts_with("-0.0") && !b.get(i + 4).map_or(false, |c| c.is_ascii_digit() || *c == b'e') && !(i > 0 && (b[i - 1].is_ascii_alphanumeric())) {
            out.push_str("0.0");
            i += 4;
        } else {
            out.push(b[i] as char);
            i += 1;
        }
    }
    out
}

fuzz_target!(|data: &[u8]| {
    if data.len() > 400_000 {
        return;
    }
    let text = match std::str::from_utf8(data) {
        Ok(t) => t.to_string(),
        Err(_) => return,
    };
    common::guarded(move || {
        let m = match bemodel::Model::from_json(&text) {
            Ok(m) => m,
            Err(_) => {
                common::class("rejected");
                return;
            }
        };
        let d1 = no_negative_zero(&format!("{:?}", m));
        // JSON cannot carry non-finite numbers (1e39 read as f32): outside the models the property speaks about
        if d1.contains("inf") || d1.contains("NaN") {
            common::class("loaded-non-finite(not asserted)");
            return;
        }
        common::class("loaded");
        let j1 = m.as_json().expect("a loaded model serialises");
        let m2 = match bemodel::Model::from_json(&j1) {
            Ok(m2) => m2,
            Err(e) => panic!("roundtrip: serialised model does not load back: {}", e),
        };
        let d2 = no_negative_zero(&format!("{:?}", m2));
        if d1 != d2 {
            let i = d1.bytes().zip(d2.bytes()).position(|(a, b)| a != b).unwrap_or(d1.len().min(d2.len()));
            let lo = i.saturating_sub(40);
            panic!("roundtrip: loaded-back model differs: ...{} | ...{}", &d1[lo..(i + 40).min(d1.len())], &d2[lo..(i + 40).min(d2.len())]);
        }
        let j2 = m2.as_json().expect("serialises");
        if j1 != j2 {
            panic!("roundtrip: second serialisation differs from the first");
        }
        if !m.walls.is_empty() {
            common::class("loaded-with-walls");
        }
    });
});

fuzz_mutator!(|data: &mut [u8], size: usize, max_size: usize, seed: u32| { json_mutator::mutate(data, size, max_size, seed) });
