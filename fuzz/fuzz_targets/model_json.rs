#![no_main]
// C14 beyond three edits: any JSON text that loads as a model must give indicators without crashing, and
// after whatever happened a known good model must still give its baseline in the same process.
use libfuzzer_sys::{fuzz_mutator, fuzz_target};
use std::sync::OnceLock;
mod common;
mod json_mutator;

static GOOD: OnceLock<(bemodel::Model, String)> = OnceLock::new();

fn digest(ind: &bemodel::energy::EnergyIndicators) -> String {
    format!("{:?}|{:?}|{:?}|{}|{}", ind.K_data.K, ind.n50_data.n50, ind.q_soljul_data.q_soljul, ind.area_ref, ind.vol_env_net)
}

fuzz_target!(|data: &[u8]| {
    if data.len() > 400_000 {
        return;
    }
    let text = match std::str::from_utf8(data) {
        Ok(t) => t.to_string(),
        Err(_) => return,
    };
    let good = GOOD.get_or_init(|| {
        let t = std::fs::read_to_string("/repo/bemodel/tests/data/cubo.json").expect("cubo.json is shipped");
        let m = bemodel::Model::from_json(&t).expect("cubo.json loads");
        let d = digest(&m.energy_indicators());
        (m, d)
    });
    common::guarded(move || match bemodel::Model::from_json(&text) {
        Ok(m) => {
            // keep the shading computation bounded
            if m.windows.len() > 40 || m.walls.len() > 200 || m.shades.len() > 200 {
                common::class("loaded-too-large");
                return;
            }
            common::class("loaded");
            if !m.windows.is_empty() {
                common::class("loaded-with-windows");
            }
            let ind = m.energy_indicators();
            let _ = ind.as_json();
            // every 64th computed model: the process still computes the good model to its baseline
            if (m.walls.len() + m.windows.len() + text.len()) % 64 == 0 {
                common::class("good-model-recheck");
                let d = digest(&good.0.energy_indicators());
                if d != good.1 {
                    panic!("a good model computed after other models differs from its baseline");
                }
            }
        }
        Err(_) => common::class("rejected"),
    });
});

fuzz_mutator!(|data: &mut [u8], size: usize, max_size: usize, seed: u32| { json_mutator::mutate(data, size, max_size, seed) });
