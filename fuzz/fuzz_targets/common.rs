// Shared by the fuzz targets: run the subject under catch_unwind; a panic whose signature
// (file + first words of the message) is an OPEN known finding (passed by the driver in VERIF_FUZZ_ALLOW,
// one signature per line) is tolerated, so that campaigns go past it; any other panic aborts the process
// (libFuzzer then saves the input). Class counters go to the file named by VERIF_FUZZ_STATS.
#![allow(dead_code)]
use std::cell::RefCell;
use std::collections::BTreeMap;
use std::panic;
use std::sync::{Mutex, Once, OnceLock};

thread_local! {
    static LAST: RefCell<Option<(String, String)>> = const { RefCell::new(None) };
}
static HOOK: Once = Once::new();
static STATS: Mutex<BTreeMap<String, u64>> = Mutex::new(BTreeMap::new());
static ALLOW: OnceLock<Vec<String>> = OnceLock::new();

extern "C" {
    fn atexit(cb: extern "C" fn()) -> i32;
}

extern "C" fn flush_at_exit() {
    flush_stats();
}

pub fn flush_stats() {
    if let Ok(p) = std::env::var("VERIF_FUZZ_STATS") {
        if let Ok(s) = STATS.lock() {
            let body: Vec<String> = s.iter().map(|(k, v)| format!("\"{}\": {}", k, v)).collect();
            let _ = std::fs::write(p, format!("{{{}}}", body.join(", ")));
        }
    }
}

/// counts one case in class `name`
pub fn class(name: &str) {
    if let Ok(mut s) = STATS.lock() {
        *s.entry(name.to_string()).or_insert(0) += 1;
    }
}

pub fn mask(msg: &str) -> String {
    let first = msg.lines().next().unwrap_or("");
    let mut out = String::new();
    let mut chars = first.chars().peekable();
    let mut q: Option<char> = None;
    while let Some(c) = chars.next() {
        if let Some(k) = q {
            if c == k {
                q = None;
                out.push('S');
            }
            continue;
        }
        if c == '"' || c == '\'' || c == '`' {
            q = Some(c);
            continue;
        }
        if c.is_ascii_digit() {
            while let Some(n) = chars.peek() {
                if n.is_ascii_digit() || *n == '.' {
                    chars.next();
                } else {
                    break;
                }
            }
            out.push('N');
            continue;
        }
        out.push(c);
    }
    out.split_whitespace().take(4).collect::<Vec<_>>().join(" ")
}

fn allow() -> &'static Vec<String> {
    ALLOW.get_or_init(|| std::env::var("VERIF_FUZZ_ALLOW").map(|s| s.lines().map(|l| l.trim().to_string()).filter(|l| !l.is_empty()).collect()).unwrap_or_default())
}

pub fn guarded<R>(f: impl FnOnce() -> R + panic::UnwindSafe) -> Option<R> {
    HOOK.call_once(|| {
        panic::set_hook(Box::new(|info| {
            let file = info.location().map(|l| l.file().trim_start_matches("/repo/").to_string()).unwrap_or_default();
            let msg = if let Some(s) = info.payload().downcast_ref::<&str>() {
                s.to_string()
            } else if let Some(s) = info.payload().downcast_ref::<String>() {
                s.clone()
            } else {
                String::new()
            };
            LAST.with(|l| *l.borrow_mut() = Some((file, msg)));
        }));
        unsafe {
            atexit(flush_at_exit);
        }
    });
    class("exec");
    match panic::catch_unwind(f) {
        Ok(r) => Some(r),
        Err(_) => {
            let (file, msg) = LAST.with(|l| l.borrow_mut().take()).unwrap_or_default();
            let sig = format!("panic@{}:{}", file, mask(&msg));
            let strict = std::env::var("VERIF_STRICT").is_ok();
            if !strict && allow().iter().any(|a| *a == sig) {
                class(&format!("known:{}", sig));
                return None;
            }
            flush_stats();
            eprintln!("FUZZ-PANIC signature={} message={}", sig, msg.lines().next().unwrap_or(""));
            std::process::abort();
        }
    }
}
