// Shared by the fuzz targets: run the subject under catch_unwind; a panic whose signature
// (file + first words of the message) is an OPEN known finding (passed by the driver in VERIF_FUZZ_ALLOW,
// one signature per line) is tolerated, so that campaigns go past it; any other panic aborts the process
// (libFuzzer then saves the input). Class counters go to the file named by VERIF_FUZZ_STATS.
#![allow(dead_code)]
use std::cell::RefCell;
use std::collections::BTreeMap;
use std::panic;
use std::sync::{Mutex, Once, OnceLock};

thread_local! {
    static LAST: RefCell<Option<(String, String)>> = const { RefCell::new(None) };
}
static HOOK: Once = Once::new();
static STATS: Mutex<BTreeMap<String, u64>> = Mutex::new(BTreeMap::new());
static ALLOW: OnceLock<Vec<String>> = OnceLock::new();

extern "C" {
    fn atexit(cb: extern "C" fn()) -> i32;
}

extern "C" fn flush_at_exit() {
    flush_stats();
}

pub fn flush_stats() {
    if let Ok(p) = std::env::var("VERIF_FUZZ_STATS") {
        if let Ok(s) = STATS.lock() {
            let body: Vec<String> = s.iter().map(|(k, v)| format!("\"{}\": {}", k, v)).collect();
            let _ = std::fs::write(p, format!("{{{}}}", body.join(", ")));
        }
    }
}

/// counts one case in class `name`
pub fn class(name: &str) {
    if let Ok(mut s) = STATS.lock() {
        *s.entry(name.to_string()).or_insert(0) += 1;
    }
}

pub fn mask(msg: &str) -> String {
    let first = msg.lines().next().unwrap_or("");
    let mut out = String::new();
    let mut chars = first.chars().peekable();
    let mut q: Option<char> = None;
    while let Some(c) = chars.next() {
        if let Some(k) = q {
            if c == k {
                q = None;
                out.push('S');
            }
            continue;
        }
        if c == '"' || c == '\'' || c == '`' {
            q = Some(c);
            continue;
        }
        if c.is_ascii_digit() {
            while let Some(n) = chars.peek() {
                if n.is_ascii_digit() || *n == '.' {
                    chars.next();
                } else {
                    break;
                }
            }
            out.push('N');
            continue;
        }
        out.push(c);
    }
    out.split_whitespace().take(4).collect::<Vec<_>>().join(" ")
}

fn allow() -> &'static Vec<String> {
    ALLOW.get_or_init(|| std::env::var("VERIF_FUZZ_ALLOW").map(|s| s.lines().map(|l| l.trim().to_string()).filter(|l| !l.is_empty()).collect()).unwrap_or_default())
}

pub fn guarded<R>(f: impl FnOnce() -> R + panic::UnwindSafe) -> Option<R> {
    HOOK.call_once(|| {
        panic::set_hook(Box::new(|info| {
            let file = info.location().map(|l| l.file().trim_start_matches("/repo/").to_string()).unwrap_or_default();
            let msg = if let Some(s) = info.payload().downcast_ref::<&str>() {
                s.to_string()
            } else if let Some(s) = info.payload().downcast_ref::<String>() {
                s.clone()
            } else {
                String::new()
            };
            LAST.with(|l| *l.borrow_mut() = Some((file, msg)));
        }));
        unsafe {
            atexit(flush_at_exit);
        }
    });
    class("exec");
    match panic::catch_unwind(f) {
        Ok(r) => Some(r),
        Err(_) => {
            let (file, msg) = LAST.with(|l| l.borrow_mut().take()).unwrap_or_default();
            let sig = format!("panic@{}:{}", file, mask(&msg));
            let strict = std::env::var("VERIF_STRICT").is_ok();
            if !strict && allow().iter().any(|a| *a == sig) {
                class(&format!("known:{}", sig));
                return None;
            }
            flush_stats();
            eprintln!("FUZZ-PANIC signature={} message={}", sig, msg.lines().next().unwrap_or(""));
            std::process::abort();
        }
    }
}

// ---------------------------------------------------------------- structure-aware mutation helpers

pub struct Rng(pub u64);
impl Rng {
    pub fn new(seed: u32) -> Rng {
        Rng((seed as u64).wrapping_mul(0x9E37_79B9_7F4A_7C15) | 1)
    }
    pub fn next(&mut self) -> u64 {
        // xorshift64*
        let mut x = self.0;
        x ^= x >> 12;
        x ^= x << 25;
        x ^= x >> 27;
        self.0 = x;
        x.wrapping_mul(0x2545_F491_4F6C_DD1D)
    }
    pub fn below(&mut self, n: usize) -> usize {
        if n == 0 {
            0
        } else {
            (self.next() % n as u64) as usize
        }
    }
}

fn number_span(line: &[u8]) -> Option<(usize, usize)> {
    let mut i = 0;
    while i < line.len() {
        let c = line[i];
        let prev_ok = i == 0 || !(line[i - 1].is_ascii_alphanumeric() || line[i - 1] == b'_');
        if prev_ok && (c.is_ascii_digit() || ((c == b'-' || c == b'.') && i + 1 < line.len() && line[i + 1].is_ascii_digit())) {
            let mut j = i + 1;
            while j < line.len() && (line[j].is_ascii_digit() || line[j] == b'.' || line[j] == b'e' || line[j] == b'E') {
                j += 1;
            }
            return Some((i, j));
        }
        i += 1;
    }
    None
}

fn quoted_span(line: &[u8]) -> Option<(usize, usize)> {
    let a = line.iter().position(|&b| b == b'"')?;
    let b = line[a + 1..].iter().position(|&b| b == b'"')? + a + 1;
    if b > a + 1 {
        Some((a + 1, b))
    } else {
        None
    }
}

const NUMBERS: [&str; 14] = ["0", "-1", "1", "abc", "1e39", "NaN", "-0.0", "0.001", "90", "180", "360", "13", "1e-30", "99999999"];

/// 1-3 line-level edits of a text (the vocabulary of the fault enumeration, combined and iterated under
/// coverage guidance): delete / duplicate / swap lines, truncate, replace a number, replace or respell a
/// quoted name by another one of the text, delete or duplicate a block (.. terminated)
pub fn mutate_lines(data: &mut [u8], size: usize, max_size: usize, seed: u32) -> Option<usize> {
    let mut rng = Rng::new(seed);
    let text = &data[..size];
    let mut lines: Vec<Vec<u8>> = text.split(|&b| b == b'\n').map(|l| l.to_vec()).collect();
    if lines.len() < 3 {
        return None;
    }
    let n_edits = 1 + rng.below(3);
    for _ in 0..n_edits {
        let n = lines.len();
        if n < 3 {
            break;
        }
        let i = rng.below(n);
        match rng.below(10) {
            0 => {
                lines.remove(i);
            }
            1 => {
                let l = lines[i].clone();
                lines.insert(i, l);
            }
            2 => {
                let j = rng.below(n);
                lines.swap(i, j);
            }
            3 => {
                if rng.below(4) == 0 {
                    lines.truncate(i + 1);
                }
            }
            4 | 5 => {
                // a number on this or a following line
                for k in 0..20 {
                    let idx = (i + k) % n;
                    if let Some((a, b)) = number_span(&lines[idx]) {
                        let rep = NUMBERS[rng.below(NUMBERS.len())].as_bytes();
                        let mut l = lines[idx][..a].to_vec();
                        l.extend_from_slice(rep);
                        l.extend_from_slice(&lines[idx][b..]);
                        lines[idx] = l;
                        break;
                    }
                }
            }
            6 | 7 => {
                // a quoted name replaced by another quoted name of the text (or respelt)
                for k in 0..20 {
                    let idx = (i + k) % n;
                    if let Some((a, b)) = quoted_span(&lines[idx]) {
                        let other = (0..30).map(|_| rng.below(n)).find_map(|j| quoted_span(&lines[j]).map(|(c, d)| lines[j][c..d].to_vec()));
                        let rep: Vec<u8> = match (rng.below(3), other) {
                            (0, _) | (_, None) => {
                                let mut v = lines[idx][a..b].to_vec();
                                v.extend_from_slice(b"_X");
                                v
                            }
                            (_, Some(o)) => o,
                        };
                        let mut l = lines[idx][..a].to_vec();
                        l.extend_from_slice(&rep);
                        l.extend_from_slice(&lines[idx][b..]);
                        lines[idx] = l;
                        break;
                    }
                }
            }
            _ => {
                // the block around line i
                let is_end = |l: &Vec<u8>| {
                    let t: Vec<u8> = l.iter().copied().filter(|b| !b.is_ascii_whitespace()).collect();
                    t.ends_with(b"..")
                };
                let mut start = i;
                while start > 0 && !is_end(&lines[start - 1]) {
                    start -= 1;
                }
                let mut end = i;
                while end < n && !is_end(&lines[end]) {
                    end += 1;
                }
                if end < n && end - start < 200 {
                    if rng.below(2) == 0 {
                        lines.drain(start..=end);
                    } else {
                        let blk: Vec<Vec<u8>> = lines[start..=end].to_vec();
                        let at = rng.below(lines.len());
                        for (k, l) in blk.into_iter().enumerate() {
                            lines.insert((at + k).min(lines.len()), l);
                        }
                    }
                }
            }
        }
    }
    let out = lines.join(&b'\n');
    if out.is_empty() || out.len() > max_size || out.len() > data.len() {
        return None;
    }
    data[..out.len()].copy_from_slice(&out);
    Some(out.len())
}
