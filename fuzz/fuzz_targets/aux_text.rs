#![no_main]
// C19: the two auxiliary HULC outputs. First byte even: KyGananciasSolares.txt text; odd: NewBDL_O.tbl file.
use libfuzzer_sys::fuzz_target;
mod common;

fuzz_target!(|data: &[u8]| {
    if data.is_empty() || data.len() > 100_000 {
        return;
    }
    let kyg = data[0] % 2 == 0;
    let body = data[1..].to_vec();
    common::guarded(move || {
        if kyg {
            let text: String = body.iter().map(|&b| b as char).collect();
            match hulc::kyg::parse(&text) {
                Ok(_) => common::class("kyg-ok"),
                Err(_) => common::class("kyg-error"),
            }
        } else {
            let dir = std::path::Path::new("/verif/target/tmp");
            let _ = std::fs::create_dir_all(dir);
            let p = dir.join(format!("fuzz-{}.tbl", std::process::id()));
            if std::fs::write(&p, &body).is_err() {
                return;
            }
            match hulc::tbl::parse(&p) {
                Ok(_) => common::class("tbl-ok"),
                Err(_) => common::class("tbl-error"),
            }
        }
    });
});
