// Structural mutation of JSON texts, shared by the model targets.
use crate::common;
use serde_json::Value;

fn paths(v: &Value, cur: String, out: &mut Vec<String>) {
    out.push(cur.clone());
    match v {
        Value::Object(o) => {
            for (k, c) in o {
                paths(c, format!("{}/{}", cur, k.replace('~', "~0").replace('/', "~1")), out);
            }
        }
        Value::Array(a) => {
            for (i, c) in a.iter().enumerate() {
                paths(c, format!("{}/{}", cur, i), out);
            }
        }
        _ => {}
    }
}

fn uuid_like(s: &str) -> bool {
    s.len() == 36 && s.as_bytes()[8] == b'-' && s.as_bytes()[13] == b'-'
}

/// one structural edit of the JSON tree
fn edit(v: &mut Value, rng: &mut common::Rng) {
    let mut ps = vec![];
    paths(v, String::new(), &mut ps);
    if ps.len() < 2 {
        return;
    }
    // ids of the document, to redirect references
    let mut ids: Vec<String> = vec![];
    for p in &ps {
        if let Some(Value::String(s)) = v.pointer(p) {
            if uuid_like(s) {
                ids.push(s.clone());
            }
        }
    }
    let p = ps[1 + rng.below(ps.len() - 1)].clone();
    let (parent, key) = match p.rfind('/') {
        Some(i) => (p[..i].to_string(), p[i + 1..].to_string()),
        None => return,
    };
    let choice = rng.below(8);
    if choice == 0 {
        // remove from the parent
        match v.pointer_mut(&parent) {
            Some(Value::Object(o)) => {
                o.remove(&key.replace("~1", "/").replace("~0", "~"));
            }
            Some(Value::Array(a)) => {
                if let Ok(i) = key.parse::<usize>() {
                    if i < a.len() {
                        a.remove(i);
                    }
                }
            }
            _ => {}
        }
        return;
    }
    if choice == 1 {
        // duplicate within a parent array
        if let Some(Value::Array(a)) = v.pointer_mut(&parent) {
            if let Ok(i) = key.parse::<usize>() {
                if i < a.len() && a.len() < 400 {
                    let c = a[i].clone();
                    a.insert(i, c);
                }
            }
        }
        return;
    }
    let r = rng.next();
    if let Some(node) = v.pointer_mut(&p) {
        match node {
            Value::Number(n) => {
                let x = n.as_f64().unwrap_or(0.0);
                let y = match r % 10 {
                    0 => 0.0,
                    1 => -x,
                    2 => x * 10.0,
                    3 => x / 10.0,
                    4 => 1e30,
                    5 => 1e-30,
                    6 => x + 1.0,
                    7 => x - 1.0,
                    8 => 90.0 * ((r >> 8) % 5) as f64,
                    _ => (x * 100.0).round() / 100.0 + 0.005,
                };
                *node = if n.is_u64() || n.is_i64() { serde_json::json!(y as i64) } else { serde_json::json!(y) };
            }
            Value::String(s) => {
                if uuid_like(s) {
                    *s = match r % 4 {
                        0 => "00000000-0000-0000-0000-000000000000".to_string(),
                        1 => format!("{:08x}-0000-4000-8000-{:012x}", (r >> 32) as u32, r & 0xffff_ffff_ffff),
                        _ => ids[(r as usize >> 3) % ids.len()].clone(),
                    };
                } else if r % 3 == 0 {
                    s.clear();
                } else {
                    s.push('x');
                }
            }
            Value::Bool(b) => *b = !*b,
            Value::Array(a) => match r % 4 {
                0 => a.clear(),
                1 => a.truncate(a.len() / 2),
                2 => {
                    if a.len() >= 2 {
                        let (i, j) = ((r >> 8) as usize % a.len(), (r >> 24) as usize % a.len());
                        a.swap(i, j);
                    }
                }
                _ => {
                    if !a.is_empty() && a.len() < 400 {
                        let c = a[(r >> 8) as usize % a.len()].clone();
                        a.push(c);
                    }
                }
            },
            Value::Object(o) => {
                if let Some(k) = o.keys().nth((r >> 8) as usize % o.len().max(1)).cloned() {
                    o.remove(&k);
                }
            }
            Value::Null => {}
        }
    }
}


/// three out of four mutations are 1-3 structural edits of the JSON tree (the text stays JSON, so the search
/// spends its time in the model loader and behind it); the rest are libFuzzer's byte-level mutations
pub fn mutate(data: &mut [u8], size: usize, max_size: usize, seed: u32) -> usize {
    if seed % 4 != 0 {
        if let Ok(mut v) = serde_json::from_slice::<Value>(&data[..size]) {
            let mut rng = common::Rng::new(seed);
            for _ in 0..1 + rng.below(3) {
                edit(&mut v, &mut rng);
            }
            // one time in three the text is written pretty-printed (what the tools write), else compact
            let out = if rng.below(3) == 0 { serde_json::to_vec_pretty(&v) } else { serde_json::to_vec(&v) };
            if let Ok(out) = out {
                if !out.is_empty() && out.len() <= max_size && out.len() <= data.len() {
                    data[..out.len()].copy_from_slice(&out);
                    return out.len();
                }
            }
        }
    }
    libfuzzer_sys::fuzzer_mutate(data, size, max_size)
}
