#![no_main]
// C13: bytes decoded into (boxes, leaf size, rays); the BVH answer must equal testing every box.
use arbitrary::{Arbitrary, Unstructured};
use bemodel::energy::{Intersectable, Ray, AABB, BVH};
use libfuzzer_sys::fuzz_target;
use nalgebra::{point, vector};
mod common;

fn coord(u: &mut Unstructured) -> f32 {
    // two-decimal coordinates in [-40, 40], with frequent repeats
    (i16::arbitrary(u).unwrap_or(0) % 4000) as f32 / 100.0
}

fuzz_target!(|data: &[u8]| {
    let mut u = Unstructured::new(data);
    let n = (u8::arbitrary(&mut u).unwrap_or(0) as usize) % 120;
    let leaf = [1usize, 2, 4, 30][(u8::arbitrary(&mut u).unwrap_or(0) % 4) as usize];
    let mut boxes = vec![];
    for _ in 0..n {
        let (x, y, z) = (coord(&mut u), coord(&mut u), coord(&mut u));
        let (sx, sy, sz) = ((u8::arbitrary(&mut u).unwrap_or(0) % 50) as f32 / 5.0, (u8::arbitrary(&mut u).unwrap_or(0) % 50) as f32 / 5.0, (u8::arbitrary(&mut u).unwrap_or(0) % 30) as f32 / 5.0);
        boxes.push(AABB::new(point![x, y, z], point![x + sx, y + sy, z + sz]));
        if u8::arbitrary(&mut u).unwrap_or(0) % 5 == 0 {
            let last = *boxes.last().unwrap();
            boxes.push(last);
        }
    }
    let mut rays = vec![];
    for _ in 0..6 {
        let o = point![coord(&mut u), coord(&mut u), coord(&mut u)];
        let d = if !boxes.is_empty() && u8::arbitrary(&mut u).unwrap_or(0) % 3 != 0 {
            let b = boxes[(u16::arbitrary(&mut u).unwrap_or(0) as usize) % boxes.len()];
            b.center() - o
        } else {
            vector![coord(&mut u), coord(&mut u), coord(&mut u)]
        };
        if d.norm() > 1e-3 {
            rays.push(Ray::new(o, d));
        }
    }
    common::guarded(move || {
        let bvh = BVH::build(boxes.clone(), leaf);
        for r in &rays {
            let a = bvh.intersects(r).is_some();
            let b = boxes.iter().any(|e| e.intersects(r).is_some());
            if a != b {
                panic!("BVH answer {} differs from testing every element {} ({} boxes, leaf {})", a, b, boxes.len(), leaf);
            }
        }
    });
});
